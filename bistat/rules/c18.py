"""C18 -- the regexp pre-filter never rejects a matching packet.

Rule family R12 (regex construction discipline) on Int/Data/Bits.pack_regexp,
FragmentsOfRegexps, Packet.as_regular_expression and pattern_matching.filter_like:

 (a) escape discipline (taint): a chunk inserted as a *pattern* (is_literal=False) is
     built only from regex-syntax constants, re.escape(...) results, ``.pattern`` of a
     compiled regex and formatted integers; everything else is inserted as a literal
     and FragmentsOfRegexps.insert escapes literals with re.escape;
 (b) the assembled pattern is prefixed (?s); filter_like matches with match/search,
     never fullmatch;
 (c) maybe-Any discipline: a value read with getattr(pkt, ...) may be an ``Any``
     placeholder; it reaches a value-requiring sink (%i/%d formatting, arithmetic,
     bin(), packing) only under an ``isinstance(..., Any)`` test on the path or inside a
     try that tolerates Exception -- otherwise building the expression raises;
 (d) width agreement: an Any Int renders .{byte_count}; an Any sized Data renders .{N}
     with the N the unpack strategy uses; a delimited Data renders <custom|.*> + the
     escaped marker / the marker's pattern;
 (e) holes render as (?:.{n}) with n = gap, only when n > 0;
 (i) as_regular_expression assembles the pattern afresh from the current field values on every call;
 (j) the unpack siblings agree with the pattern (C06 b-d, C07 a, b, e);
 (g) building the pattern is stateless (rule R5 of C13 on the regexp functions);
 (i) as_regular_expression assembles the pattern afresh from the current field values on every call;
 (j) the unpack siblings agree with the pattern (C06 b-d, C07 a, b, e);
 (f) Bits: all-fixed byte -> literal; all-don't-care -> .{1}; don't-care suffix ->
     range [lo-hi] with escaped bounds; otherwise the class of {(p & dont_care) | fixed}.
Language inclusion of the regex and the regex engine itself are not decided.

Round 4: user callables run on a pattern sit in a try that tolerates Exception; the base insert
stores a chunk for every recorded position; the placeholder of a pattern chunk is never empty;
constructor-derived attributes (a marker's prepared pattern) read as their definition.

Round 5: methods of the Any placeholder are read through their definitions; the Int._compile
codec rule (C05 a, b) is included because a fixed Int is rendered by the field's own pack.

Round 6: no fabricated parse context (k['raw']) for user callables; an escaped text inserted as
a literal; parked size resolvers are scanned.
Round 7: includes the struct-block rule of C03 (the pattern of a fixed value is what the field's own
pack emits; the generated unpack must decode it with the field's own endianness).
Round 8: the sub-mask walk that omits the empty sub-mask; includes the equality-shape rule of C20.
Round 9 (F13): the pattern of a regular-expression delimiter stands in a group of its own that
carries its flags (R12-delimiter-group).
"""
import ast

from .. import Undecided
from ..expr import canon, unparse, call_name, negate, conj, kwarg
from ..model import stmt_text, strategy_table

EXPLANATION = __doc__
LEVEL_RULE = 'one obligation per (pattern chunk | sink | clause) over all paths of the pack_regexp implementations and the regex assembly'
ASSUMPTIONS = [
    're.escape(b) matches exactly the byte string b; (?s) makes . match every byte including newline',
    'pattern.match / pattern.search accept a string with trailing bytes after the packet (prefix match)',
    'Sequence / Optional / Ref pack_regexp are outside the declared scope (integer, bit and byte-string fields)',
]


def concat_ops(e):
    if isinstance(e, ast.BinOp) and isinstance(e.op, ast.Add):
        return concat_ops(e.left) + concat_ops(e.right)
    return [e]


_REPO = [None]


def _flag_letters(func, name, param):
    """``name`` is assigned once in the function from ``''.join(<letter> for <letter>, <flag> in
    <constant pairs> if <param>.flags & <flag>)``: inline-flag letters picked by the regex's flags"""
    if isinstance(name, str):
        asg = [a for a in ast.walk(func) if isinstance(a, ast.Assign) and len(a.targets) == 1 and isinstance(a.targets[0], ast.Name) and a.targets[0].id == name]
        if len(asg) != 1:
            return False
        v = asg[0].value
    else:
        v = name          # the join expression itself
    if not (isinstance(v, ast.Call) and isinstance(v.func, ast.Attribute) and v.func.attr == 'join' and isinstance(v.func.value, ast.Constant) and v.func.value.value == '' and len(v.args) == 1):
        return False
    g = v.args[0]
    if not (isinstance(g, (ast.GeneratorExp, ast.ListComp)) and len(g.generators) == 1):
        return False
    gen = g.generators[0]
    if not (isinstance(gen.target, ast.Tuple) and len(gen.target.elts) == 2 and all(isinstance(x, ast.Name) for x in gen.target.elts) and isinstance(g.elt, ast.Name) and g.elt.id == gen.target.elts[0].id):
        return False
    if not (isinstance(gen.iter, (ast.Tuple, ast.List)) and all(isinstance(x, ast.Tuple) and len(x.elts) == 2 and isinstance(x.elts[0], ast.Constant) and x.elts[0].value in ('i', 'm', 's', 'x', 'a', 'L')
                                                                 and unparse(x.elts[1]) in ('re.I', 're.M', 're.S', 're.X', 're.A', 're.L', 're.IGNORECASE', 're.MULTILINE', 're.DOTALL', 're.VERBOSE') for x in gen.iter.elts)):
        return False
    pairs = {x.elts[0].value: unparse(x.elts[1]) for x in gen.iter.elts}
    right = {'i': ('re.I', 're.IGNORECASE'), 'm': ('re.M', 're.MULTILINE'), 's': ('re.S', 're.DOTALL'), 'x': ('re.X', 're.VERBOSE'), 'a': ('re.A',), 'L': ('re.L',)}
    if any(fl not in right[l] for l, fl in pairs.items()) or 'i' not in pairs:
        return False
    if len(gen.ifs) == 1 and isinstance(gen.ifs[0], ast.BinOp) and isinstance(gen.ifs[0].op, ast.BitAnd):
        sides = {canon(gen.ifs[0].left), canon(gen.ifs[0].right)}
        if sides == {'%s.flags' % param, gen.target.elts[1].id}:
            return True
    return len(gen.ifs) == 1 and canon(gen.ifs[0]) in ('(%s.flags & %s)' % (param, gen.target.elts[1].id), '(%s & %s.flags)' % (gen.target.elts[1].id, param)) or \
        (len(gen.ifs) == 1 and unparse(gen.ifs[0]) in ('%s.flags & %s' % (param, gen.target.elts[1].id), '%s & %s.flags' % (gen.target.elts[1].id, param)))


def _group_operands(ops, recv_text, func=None, param=None):
    """the operand ``<recv>.pattern`` of a concatenation stands between constant group syntax:
    ``b'(?' [flag letters] b':' <recv>.pattern b')'`` (or ``b'(?:' <recv>.pattern b')'``).
    Returns (grouped, carries_flags)"""
    for i, x in enumerate(ops):
        if isinstance(x, ast.Attribute) and x.attr == 'pattern' and canon(x.value) == recv_text:
            nxt = ops[i + 1] if i + 1 < len(ops) else None
            if not (isinstance(nxt, ast.Constant) and isinstance(nxt.value, bytes) and nxt.value.startswith(b')')):
                return False, False
            prev = ops[i - 1] if i else None
            if isinstance(prev, ast.Constant) and isinstance(prev.value, bytes) and prev.value.endswith(b'(?:'):
                return True, False
            if isinstance(prev, ast.Constant) and prev.value == b':' and i >= 3 and isinstance(ops[i - 3], ast.Constant) and isinstance(ops[i - 3].value, bytes) and ops[i - 3].value.endswith(b'(?'):
                fl = ops[i - 2]
                ok = isinstance(fl, ast.Call) and isinstance(fl.func, ast.Attribute) and fl.func.attr == 'encode' and \
                    ((isinstance(fl.func.value, ast.Name) and func is not None and _flag_letters(func, fl.func.value.id, param))
                     or (isinstance(fl.func.value, ast.Call) and _flag_letters(func, fl.func.value, param or recv_text)))
                return True, bool(ok)
            return False, False
    return None, None


def _group_helper(repo, name):
    """the module-level function ``name(regexp)`` returns the regex's pattern as a group that
    carries its flags; None when it is not such a function"""
    fis = [fi for (m_, n_), fi in repo.module_funcs.items() if n_ == name]
    if len(fis) != 1 or not isinstance(fis[0].node, ast.FunctionDef) or len(fis[0].node.args.args) != 1:
        return None
    fn = fis[0].node
    prm = fn.args.args[0].arg
    rets = [r for r in ast.walk(fn) if isinstance(r, ast.Return) and r.value is not None]
    if len(rets) != 1:
        return None
    grouped, flags = _group_operands(concat_ops(rets[0].value), prm, fn, prm)
    if grouped and flags:
        return fis[0]
    return None


def check_delimiter_pattern_is_a_group(ctx, repo, rule='R12-delimiter-group'):
    """Round 9 (F13).  the regular expression a declaration gives as the delimiter of a byte
    string is foreign text: spliced bare into the packet's expression, an alternative in it
    (``\\d+!|$``) splits the *whole* expression in two, and its flags (re.I) are lost -- strings
    that unpack to a packet equal to the pattern are rejected by the pre-filter.  It has to stand
    in a group of its own that carries its flags"""
    dt = repo.cls('Data')
    fi = dt.methods.get('pack_regexp')
    if fi is None:
        raise Undecided('anchor Data.pack_regexp not found')
    n = 0
    funcs = [fi] + [g for (m_, n_), g in repo.module_funcs.items() if m_ == fi.module and any(isinstance(c, ast.Call) and isinstance(c.func, ast.Name) and c.func.id == n_ for c in ast.walk(fi.node))]
    for f_ in funcs:
        for x in ast.walk(f_.node):
            if not (isinstance(x, ast.Attribute) and x.attr == 'pattern'):
                continue
            recv = canon(x.value)
            if f_ is fi and 'until_marker' not in recv:
                continue          # the placeholder's own expression is made of escaped literals and '.*' (checked by R12-any)
            if f_ is not fi and not (isinstance(x.value, ast.Name) and x.value.id in [a.arg for a in f_.node.args.args]):
                continue
            n += 1
            # the concatenation the operand belongs to
            parents = {}
            for pn in ast.walk(f_.node):
                for c_ in ast.iter_child_nodes(pn):
                    parents[id(c_)] = pn
            top = x
            while id(top) in parents and isinstance(parents[id(top)], ast.BinOp) and isinstance(parents[id(top)].op, ast.Add):
                top = parents[id(top)]
            ops = concat_ops(top) if top is not x else [x]
            prm = x.value.id if isinstance(x.value, ast.Name) else None
            grouped, flags = _group_operands(ops, recv, f_.node, prm)
            if grouped and not flags and prm is None:
                # self.until_marker.pattern grouped in place: the flags have to be read somewhere in the expression
                flags = any(isinstance(y, ast.Attribute) and y.attr == 'flags' and canon(y.value) == recv for y in ast.walk(f_.node))
            st = '%s: %s' % (f_.qual, short(top))
            if grouped and flags:
                ctx.holds(rule, f_, st, 'the delimiter\'s expression stands in a group of its own with its flags', x.lineno, clause='a')
            elif grouped:
                ctx.violation(rule, f_, st, 'the delimiter\'s expression is grouped but its flags are dropped: Data(until_marker=re.compile(b"end", re.I)) finds "END" when unpacking, the pre-filter looks for "end" only and rejects the string', x.lineno, clause='a', witness=True,
                              key='Data.pack_regexp: the flags of the delimiter expression are dropped')
            else:
                ctx.violation(rule, f_, st, 'the pattern of the delimiter is spliced bare into the packet\'s regular expression: an alternative in it (re.compile(b"\\\\d+!|$")) splits the whole expression, and its flags (re.I) are lost -- a string that unpacks to a packet equal to the pattern is rejected by the pre-filter', x.lineno, clause='a', witness=True,
                              key='Data.pack_regexp: the delimiter expression is embedded without a group')
    if not n:
        ctx.undecided(rule, fi, 'Data.pack_regexp', 'cannot see where the pattern of a regular-expression delimiter is embedded', fi.node.lineno, clause='a')
    ctx.unit('delimiter_patterns', n)


def pattern_operand_ok(e):
    """(ok, why) for one operand of a chunk inserted as a pattern"""
    if isinstance(e, ast.Constant) and isinstance(e.value, (bytes, str)):
        return True, 'regex-syntax constant'
    if isinstance(e, ast.Call):
        nm = call_name(e) or ''
        if nm in ('re.escape', 'escape'):
            return True, 're.escape'
        f = e.func
        if isinstance(f, ast.Attribute) and f.attr == 'encode':
            inner = f.value
            if isinstance(inner, ast.BinOp) and isinstance(inner.op, ast.Mod) and isinstance(inner.left, ast.Constant):
                fmt = inner.left.value
                import re as _re
                convs = _re.findall(r'%[#0\- +]*\d*(?:\.\d+)?([a-zA-Z%])', fmt)
                if all(c in 'idxXo%' for c in convs):
                    return True, 'formatted integer'
                return False, 'a %s conversion places arbitrary text in the pattern' % [c for c in convs if c not in 'idxXo%']
            if isinstance(inner, ast.Constant):
                return True, 'constant'
            if isinstance(inner, ast.Call) and isinstance(inner.func, ast.Attribute) and inner.func.attr == 'join' and len(inner.args) == 1 \
                    and isinstance(inner.args[0], (ast.GeneratorExp, ast.ListComp)) and len(inner.args[0].generators) == 1:
                gen_ = inner.args[0].generators[0]
                if isinstance(gen_.iter, (ast.Tuple, ast.List)) and gen_.iter.elts and all(isinstance(x, ast.Tuple) and x.elts and isinstance(x.elts[0], ast.Constant) and x.elts[0].value in ('i', 'm', 's', 'x', 'a', 'L') for x in gen_.iter.elts) \
                        and isinstance(gen_.target, ast.Tuple) and isinstance(inner.args[0].elt, ast.Name) and isinstance(gen_.target.elts[0], ast.Name) and inner.args[0].elt.id == gen_.target.elts[0].id:
                    return True, 'inline flag letters'
        if isinstance(f, ast.Attribute) and f.attr == 'join' and e.args:
            g = e.args[0]
            if isinstance(g, (ast.GeneratorExp, ast.ListComp)):
                return pattern_operand_ok(g.elt)
            if isinstance(g, (ast.List, ast.Tuple)):
                for x in g.elts:
                    ok, why = pattern_operand_ok(x)
                    if not ok:
                        return ok, why
                return True, 'join of safe parts'
            if isinstance(g, ast.Name) and '@phi' in g.id:
                return None, 'joined sequence is loop-carried'
        # a method of the don't-care placeholder (class Any) that hands out its pattern text
        if isinstance(f, ast.Attribute) and not e.args and not e.keywords and _REPO[0] is not None and _REPO[0].has_cls('Any'):
            m_ = _REPO[0].cls('Any').methods.get(f.attr)
            if m_ is not None and sum(1 for c_ in _REPO[0].classes.values() if f.attr in c_.methods) == 1:
                rets = [r for r in ast.walk(m_.node) if isinstance(r, ast.Return) and r.value is not None]
                verdicts = [pattern_operand_ok(r.value) for r in rets]
                if verdicts and all(v[0] for v in verdicts):
                    return True, 'Any.%s(): %s' % (f.attr, verdicts[0][1])
                if any(v[0] is False for v in verdicts):
                    return [v for v in verdicts if v[0] is False][0]
                return None, 'cannot see what Any.%s() returns' % f.attr
        # a function of the package that renders a compiled regex as a group (its pattern between
        # constant group syntax, the flag letters computed from its .flags)
        if isinstance(f, ast.Name) and _REPO[0] is not None and len(e.args) == 1 and not e.keywords:
            g_ = _group_helper(_REPO[0], f.id)
            if g_ is not None:
                return True, 'group around the pattern of a compiled regex (%s)' % f.id
        raw_bytes = (isinstance(f, ast.Name) and f.id in ('bytes', 'bytearray', 'chr', 'getattr')) or \
                    (isinstance(f, ast.Attribute) and f.attr in ('pack', 'to_bytes', 'tobytes', 'group'))
        return (False if (raw_bytes or _has_value_read(e)) else None), 'result of %s (raw bytes) is placed in the pattern unescaped' % (nm or unparse(f))
    if isinstance(e, ast.Attribute) and e.attr == 'pattern':
        return True, 'pattern of a compiled regex'
    if isinstance(e, ast.IfExp):
        a, wa = pattern_operand_ok(e.body)
        b, wb = pattern_operand_ok(e.orelse)
        if a is False or b is False:
            return False, wa if a is False else wb
        if a is None or b is None:
            return None, wa if a is None else wb
        return True, '%s | %s' % (wa, wb)
    if isinstance(e, ast.BinOp) and isinstance(e.op, ast.Add):
        for x in concat_ops(e):
            ok, why = pattern_operand_ok(x)
            if not ok:
                return ok, why
        return True, 'concatenation of safe parts'
    if isinstance(e, ast.BinOp) and isinstance(e.op, ast.Mod) and isinstance(e.left, ast.Constant) and isinstance(e.left.value, (bytes, str)):
        # b'[%s-%s]' % (a, b): the constant template with its operands spliced in
        import re as _re
        fmt = e.left.value.decode('latin-1') if isinstance(e.left.value, bytes) else e.left.value
        convs = [c for c in _re.findall(r'%[#0\- +]*\d*(?:\.\d+)?([a-zA-Z%])', fmt) if c != '%']
        args = e.right.elts if isinstance(e.right, ast.Tuple) else [e.right]
        if len(convs) != len(args):
            return None, 'cannot match the conversions of %r with its operands' % fmt
        for c, a in zip(convs, args):
            if c in 'idxXo':
                continue
            ok, why = pattern_operand_ok(a)
            if not ok:
                return ok, why
        return True, 'constant template with safe operands'
    if _has_value_read(e) or (isinstance(e, ast.Attribute) and isinstance(e.value, ast.Name) and e.value.id == 'self'):
        return False, '%s (a field value / marker) is placed in the pattern without re.escape' % canon(e)
    return None, 'cannot classify %s' % canon(e)


def _has_value_read(e):
    for n in ast.walk(e):
        if isinstance(n, ast.Call) and isinstance(n.func, ast.Name) and n.func.id == 'getattr':
            return True
        if isinstance(n, ast.Attribute) and n.attr in ('until_marker',) and isinstance(n.value, ast.Name) and n.value.id == 'self':
            return True
    return False


def all_paths_with_context(paths):
    """yields (guards-so-far, effect) for every effect, descending into loops"""
    def go(p, outer):
        gs = outer + list(p.guards)
        for e in p.effects:
            if e.kind == 'loop':
                for bp in e.sub['body']:
                    for x in go(bp, gs):
                        yield x
            elif e.kind == 'try_partial':
                continue
            else:
                yield gs, e, p
    for p in paths:
        for x in go(p, []):
            yield x


def guard_texts(gs):
    out = set()
    for g, pol in gs:
        t = g if pol else negate(g)
        for c in conj(t):
            out.add(canon(c))
    return out


def check_pack_regexp(ctx, cname, ci, fi):
    repo = ctx.repo
    w = repo.walker(inline_depth=(1 if cname == "Bits" else 0), max_paths=ctx.max_paths)
    # what only the constructor computes (a marker's pattern prepared once) reads as its definition
    w.const_heap = dict(repo.ctor_consts(ci))
    paths = w.paths(fi.node, cls=ci)
    ctx.unit('paths', len(paths))
    seen = set()
    nchunks = nsinks = 0
    for gs, e, p in all_paths_with_context(paths):
        gt = guard_texts(gs)
        if e.kind == 'call' and isinstance(e.call.func, ast.Attribute) and e.call.func.attr in ('append', 'insert', 'extend') \
                and canon(e.call.func.value) == 'fragments':
            c = e.call
            lit = kwarg(c, 'is_literal', 1 if c.func.attr != 'insert' else 2)
            chunk = c.args[0] if c.func.attr != 'insert' else (c.args[1] if len(c.args) > 1 else None)
            is_pattern = isinstance(lit, ast.Constant) and lit.value is False
            key = (id(e.node), canon(chunk) if chunk is not None else '')
            if key in seen:
                continue
            seen.add(key)
            nchunks += 1
            st = '[%s] fragments.%s(%s%s)' % (cname, c.func.attr, short(chunk), ', is_literal=False' if is_pattern else '')
            if lit is not None and not isinstance(lit, ast.Constant):
                ctx.undecided('R12-escape-discipline', fi, st, 'is_literal is not a constant', e.lineno, clause='a')
            elif is_pattern:
                ok, why = pattern_operand_ok(chunk)
                if ok:
                    ctx.holds('R12-escape-discipline', fi, st, 'pattern chunk built from: %s' % why, e.lineno, clause='a')
                elif ok is False:
                    ctx.violation('R12-escape-discipline', fi, st, why + ': bytes that are regex metacharacters change the meaning of the pattern and matching packets are rejected', e.lineno, clause='a')
                else:
                    ctx.undecided('R12-escape-discipline', fi, st, why, e.lineno, clause='a')
            elif chunk is not None and any(isinstance(x, ast.Call) and (call_name(x) or '').split('.')[-1] == 'escape' for x in ast.walk(chunk)):
                ctx.violation('R12-escape-discipline', fi, st, 'an already escaped text is inserted as a literal: FragmentsOfRegexps.insert escapes literals, so the byte is escaped twice (a metacharacter such as "(" becomes the pattern for a backslash followed by "(") and matching packets are rejected', e.lineno, clause='a', witness=True)
            else:
                ctx.holds('R12-escape-discipline', fi, st, 'inserted as a literal: escaped by FragmentsOfRegexps.insert', e.lineno, clause='a')
        # ---- (c) sinks
        if e.kind == 'call' and getattr(e, 'cond', False):
            # evaluated under a condition of the expression it is part of: judged there, with
            # that condition, when the enclosing expression is itself one of the path's effects
            if e.node is not None and any(o is not e and o.kind == 'call' and o.node is not None and o.node is not e.node
                                          and any(x is e.node for x in ast.walk(o.node)) for o in p.effects):
                continue
        for sink, operand, what, local in sinks_of(e):
            key = (canon(sink), canon(operand), tuple(sorted(gt)), tuple(sorted(local)))
            if key in seen:
                continue
            seen.add(key)
            nsinks += 1
            st = '[%s] %s of %s' % (cname, what, canon(operand))
            guarded = ('not isinstance(%s, Any)' % canon(operand)) in (gt | set(local))
            in_try = False
            if e.node is not None:
                in_try = inside_tolerant_try(fi.node, e.node)
            if guarded:
                ctx.holds('R12-maybe-any', fi, st, 'dominated by not isinstance(..., Any) on the path', e.lineno, clause='c')
            elif in_try:
                ctx.holds('R12-maybe-any', fi, st, 'inside a try that tolerates Exception', e.lineno, clause='c')
            else:
                ctx.violation('R12-maybe-any', fi, st,
                              'a field left as Any reaches %s with no isinstance(..., Any) test on the path [guards: %s]: building the regular expression raises TypeError' % (what, '; '.join(sorted(gt)) or 'none'), e.lineno, clause='c')
    ctx.unit('pattern_chunks', nchunks)
    ctx.unit('any_sinks', nsinks)
    return paths


def short(e):
    if e is None:
        return '?'
    t = canon(e)
    return t if len(t) <= 110 else t[:107] + '...'


def value_reads(e):
    """getattr(pkt, X) sub-expressions (2-argument form)"""
    return [n for n in ast.walk(e) if isinstance(n, ast.Call) and isinstance(n.func, ast.Name) and n.func.id == 'getattr'
            and len(n.args) == 2 and isinstance(n.args[0], ast.Name) and n.args[0].id in ('pkt', 'packet')]


def sinks_of(e):
    """(sink expr, maybe-Any operand, description) found in one effect"""
    out = []
    exprs = []
    if e.kind == 'call':
        exprs.append(e.call)
    elif e.kind in ('setattr', 'store_attr', 'store_sub') and e.value is not None:
        exprs.append(e.value)
    def walk_guarded(n, known):
        """every sub-expression with what the conditional expressions around it establish"""
        yield n, known
        if isinstance(n, ast.IfExp):
            yield from walk_guarded(n.test, known)
            pos = frozenset(canon(c) for c in conj(n.test))
            neg = frozenset(canon(c) for c in conj(negate(n.test)))
            yield from walk_guarded(n.body, known | pos)
            yield from walk_guarded(n.orelse, known | neg)
            return
        for ch in ast.iter_child_nodes(n):
            yield from walk_guarded(ch, known)

    for root in exprs:
        for n, known in walk_guarded(root, frozenset()):
            before = len(out)
            _sinks_at(n, out)
            for i in range(before, len(out)):
                out[i] = out[i] + (known,)
    # self.pack(pkt, fragments): packs the field's own value
    if e.kind == 'call' and isinstance(e.call.func, ast.Attribute) and e.call.func.attr == 'pack' \
            and isinstance(e.call.func.value, ast.Name) and e.call.func.value.id == 'self':
        own = ast.Call(func=ast.Name(id='getattr', ctx=ast.Load()),
                       args=[ast.Name(id='pkt', ctx=ast.Load()), ast.Attribute(value=ast.Name(id='self', ctx=ast.Load()), attr='field_name', ctx=ast.Load())], keywords=[])
        out.append((e.call, own, 'self.pack (encodes the value)', frozenset()))
    return out


def _sinks_at(n, out):
    if True:
        if True:
            if isinstance(n, ast.BinOp) and isinstance(n.op, ast.Mod) and isinstance(n.left, ast.Constant) and isinstance(n.left.value, (str, bytes)):
                import re as _re
                fmt = n.left.value if isinstance(n.left.value, str) else n.left.value.decode('latin1')
                if _re.search(r'%[#0\- +]*\d*(?:\.\d+)?[idxXoeEfFgGc]', fmt):
                    for r in value_reads(n.right):
                        if r is n.right or (isinstance(n.right, ast.Tuple) and r in n.right.elts):
                            out.append((n, r, 'numeric %-formatting'))
            elif isinstance(n, ast.BinOp) and isinstance(n.op, (ast.Add, ast.Sub, ast.Mult, ast.LShift, ast.RShift, ast.BitAnd, ast.BitOr, ast.FloorDiv)):
                for side in (n.left, n.right):
                    if side in value_reads(side) and side in (n.left, n.right) and isinstance(side, ast.Call):
                        # bytes concatenation value + delimiter inside Data.pack is reached via self.pack, not here
                        out.append((n, side, 'arithmetic (%s)' % type(n.op).__name__))
            elif isinstance(n, ast.Call) and isinstance(n.func, ast.Name) and n.func.id in ('bin', 'int', 'hex', 'len', 'bytes', 'range', 'chr'):
                for a in n.args:
                    if a in value_reads(a) and isinstance(a, ast.Call):
                        out.append((n, a, '%s()' % n.func.id))


def inside_tolerant_try(func, node):
    parents = {}
    for p in ast.walk(func):
        for c in ast.iter_child_nodes(p):
            parents[id(c)] = p
    cur = node
    while id(cur) in parents:
        par = parents[id(cur)]
        if isinstance(par, ast.Try) and any(cur is s for s in par.body):
            for h in par.handlers:
                if h.type is None or unparse(h.type) in ('Exception', 'BaseException', 'TypeError'):
                    return True
        cur = par
    return False


def check_user_callables(ctx, repo):
    """a size / condition given by the user as a callable is run on the *pattern* when the
    expression is built: with don't-care operands and without the parse context (raw, offset) it
    may fail in any way.  Every such call in a pack_regexp sits in a try that tolerates Exception"""
    rule = 'R12-maybe-any'
    n = 0
    for cname in ('Int', 'Data', 'Bits'):
        ci = repo.cls(cname)
        fi = ci.methods.get('pack_regexp')
        if fi is None:
            continue
        # a method of the class parked in an attribute by _compile (self.X = self._method) is not the
        # user's callable: the methods it may hold are scanned instead
        todo, scanned = [fi], set()
        sites = []
        while todo:
            g = todo.pop()
            if g.id in scanned:
                continue
            scanned.add(g.id)
            for c in ast.walk(g.node):
                if isinstance(c, ast.Call) and isinstance(c.func, ast.Attribute) and isinstance(c.func.value, ast.Name) and c.func.value.id == 'self' \
                        and repo.method(ci, c.func.attr) is None and c.func.attr in repo.instance_attrs(ci):
                    if c.func.attr in repo.parked_method_attrs(ci):
                        held = set()
                        for m_ in ci.methods.values():
                            for a_ in ast.walk(m_.node):
                                if isinstance(a_, ast.Assign) and any(isinstance(t_, ast.Attribute) and t_.attr == c.func.attr and canon(t_.value) == 'self' for t_ in a_.targets):
                                    for x_ in ast.walk(a_.value):
                                        if isinstance(x_, ast.Attribute) and canon(x_.value) == 'self' and repo.method(ci, x_.attr) is not None:
                                            held.add(repo.method(ci, x_.attr))
                        todo.extend(held)
                        continue
                    sites.append((g, c))
        # the parse context is not made up: a callable that needs raw / offset fails on a pattern and
        # the size is "unknown"; with a fabricated raw it answers -- a number computed from nothing
        for g in [f_ for f_ in ci.methods.values() if f_.id in scanned]:
            kw = g.node.args.kwarg.arg if g.node.args.kwarg else None
            for c in ast.walk(g.node):
                fake = None
                if isinstance(c, ast.Call) and isinstance(c.func, ast.Attribute) and kw and canon(c.func.value) == kw and c.func.attr in ('setdefault', 'update') \
                        and ((c.args and isinstance(c.args[0], ast.Constant) and c.args[0].value in ('raw',)) or any(k_.arg == 'raw' for k_ in c.keywords)):
                    fake = c
                if isinstance(c, ast.Assign) and kw and any(isinstance(t_, ast.Subscript) and canon(t_.value) == kw and isinstance(t_.slice, ast.Constant) and t_.slice.value == 'raw' for t_ in c.targets):
                    fake = c
                if fake is not None:
                    n += 1
                    ctx.violation(rule, g, '[%s] %s' % (cname, stmt_text(fake)[:80]), 'a made-up input buffer is handed to the user callable while the expression is built: a size that depends on raw / offset is then computed from nothing (a negative or absurd width becomes literal pattern text) instead of being "unknown"', fake.lineno, clause='c', witness=True)
        for fi_, c in sites:
            if True:
                n += 1
                st = '[%s] %s' % (cname, stmt_text(c)[:100])
                broad = False
                parents = {}
                for p_ in ast.walk(fi_.node):
                    for ch in ast.iter_child_nodes(p_):
                        parents[id(ch)] = p_
                cur = c
                while id(cur) in parents:
                    par = parents[id(cur)]
                    if isinstance(par, ast.Try) and any(cur is s_ for s_ in par.body):
                        for h in par.handlers:
                            if h.type is None or unparse(h.type) in ('Exception', 'BaseException'):
                                broad = True
                    cur = par
                if broad:
                    ctx.holds(rule, fi_, st, 'a user callable run on the pattern: any failure means "unknown"', c.lineno, clause='c')
                else:
                    ctx.violation(rule, fi_, st, 'a callable given by the user is run on the pattern outside a try that tolerates Exception: whatever it raises there (KeyError on the missing parse context, AttributeError on a don\'t-care) makes building the expression fail', c.lineno, clause='c', witness=True)
    ctx.unit('user_callables_on_patterns', n)


def _unconstrained(e):
    """True: the expression is the don't-care body pattern (custom pattern or .*); None: cannot tell."""
    t = canon(e)
    if '.*' in t or 'regexp.pattern' in t:
        return True
    if isinstance(e, ast.Call) and isinstance(e.func, ast.Attribute) and not e.args and _REPO[0] is not None and _REPO[0].has_cls('Any'):
        m_ = _REPO[0].cls('Any').methods.get(e.func.attr)
        if m_ is not None and sum(1 for c_ in _REPO[0].classes.values() if e.func.attr in c_.methods) == 1:
            rets = [r.value for r in ast.walk(m_.node) if isinstance(r, ast.Return) and r.value is not None]
            parts = []
            for r in rets:
                parts.extend([r.body, r.orelse] if isinstance(r, ast.IfExp) else [r])
            vs = [_unconstrained(x) for x in parts]
            if vs and all(v is True for v in vs):
                return True
            return None if any(v is None for v in vs) or not vs else False
        if m_ is None and e.func.attr not in ('encode', 'decode', 'join', 'format'):
            return None
    return False


def check_widths(ctx, repo):
    """(d) width agreement"""
    rule = 'R12-width-agreement'
    it = repo.cls('Int').methods.get('pack_regexp')
    dt = repo.cls('Data').methods.get('pack_regexp')
    if it is None or dt is None:
        raise Undecided('anchor Int.pack_regexp / Data.pack_regexp not found')
    w = repo.walker()
    # Int: the Any path appends (".{%i}" % self.byte_count)
    ok_int = False
    for p in w.paths(it.node, cls=repo.cls('Int')):
        if 'isinstance(getattr(pkt, self.field_name), Any)' in guard_texts(p.guards):
            for e in p.calls(lambda e: isinstance(e.call.func, ast.Attribute) and e.call.func.attr == 'append'):
                t = canon(e.call.args[0])
                st = '[Int] Any -> %s' % t
                if t == "('.{%i}' % self.byte_count).encode('ascii')" or ('.{%' in t and 'self.byte_count' in t and 'getattr' not in t):
                    ctx.holds(rule, it, st, 'exactly byte_count arbitrary bytes', e.lineno, clause='d')
                    ok_int = True
                else:
                    ctx.violation(rule, it, st, 'an Any integer must render as .{byte_count}', e.lineno, clause='d')
                    ok_int = True
    if not ok_int:
        ctx.undecided(rule, it, '[Int] Any path', 'no path guarded by isinstance(value, Any) appends a pattern', it.node.lineno, clause='d')
    # Data
    dcls = repo.cls('Data')
    n = 0
    wd = repo.walker(max_paths=ctx.max_paths)
    wd.const_heap = dict(repo.ctor_consts(dcls))
    for p in wd.paths(dt.node, cls=dcls):
        gt = guard_texts(p.guards)
        if 'isinstance(getattr(pkt, self.field_name), Any)' not in gt:
            continue
        if {'not callable(self.byte_count)', 'not isinstance(self.byte_count, Field)', 'not isinstance(self.byte_count, int)'} <= gt:
            continue        # Data._compile rejects such a byte_count (assert False): see C06-a
        apps = p.calls(lambda e: isinstance(e.call.func, ast.Attribute) and e.call.func.attr == 'append' and canon(e.call.func.value) == 'fragments')
        for e in apps:
            n += 1
            t = canon(e.call.args[0])
            st = '[Data] Any under [%s] -> %s' % ('; '.join(sorted(g for g in gt if 'byte_count' in g or 'until_marker' in g))[:160], short(e.call.args[0]))
            sized = '(self.byte_count is not None)' in gt
            if sized:
                if '.{%' in t:
                    # N must be the N of the unpack strategy selected by the same guard
                    if 'isinstance(self.byte_count, int)' in gt:
                        want = 'self.byte_count'
                    elif 'isinstance(self.byte_count, Field)' in gt:
                        want = 'getattr(pkt, self.byte_count.field_name)'
                        want = canon(ast.parse(want, mode='eval').body)
                    else:
                        want = 'self.byte_count('
                    arg = None
                    for x in ast.walk(e.call.args[0]):
                        if isinstance(x, ast.BinOp) and isinstance(x.op, ast.Mod) and isinstance(x.left, ast.Constant):
                            arg = x.right
                    at = canon(arg) if arg is not None else ''
                    if at == want or (want.endswith('(') and at.startswith(want)):
                        ctx.holds(rule, dt, st, 'width is the size the unpack strategy reads', e.lineno, clause='d')
                    else:
                        ctx.violation(rule, dt, st, 'the width of the Any pattern is not the declared size (%s...)' % want, e.lineno, clause='d')
                else:
                    ok, why = pattern_operand_ok(e.call.args[0])
                    un = _unconstrained(e.call.args[0])
                    if un:
                        ctx.holds(rule, dt, st, 'unknown size: unconstrained (custom or .*) pattern', e.lineno, clause='d')
                    elif un is None:
                        ctx.undecided(rule, dt, st, 'cannot see which pattern the called method hands out', e.lineno, clause='d')
                    else:
                        ctx.violation(rule, dt, st, 'unknown size must render as an unconstrained pattern', e.lineno, clause='d')
            else:
                # delimited: custom + escaped marker
                ops = concat_ops(e.call.args[0])
                tail = ops[-1]
                tt = canon(tail)
                if isinstance(tail, ast.Constant) and isinstance(tail.value, bytes) and tail.value.startswith(b')') and _group_operands(ops, 'self.until_marker')[0]:
                    # ... <group syntax> self.until_marker.pattern b')': the tail is the marker's group
                    gi = next(i_ for i_, x_ in enumerate(ops) if isinstance(x_, ast.Attribute) and x_.attr == 'pattern' and canon(x_.value) == 'self.until_marker')
                    start = gi - 1 if (isinstance(ops[gi - 1], ast.Constant) and ops[gi - 1].value.endswith(b'(?:')) else gi - 3
                    ops = ops[:start] + [ops[gi]]
                    tail = ops[-1]
                    tt = canon(tail)
                helper_tail = any(isinstance(c_, ast.Call) and isinstance(c_.func, ast.Name) and len(c_.args) == 1 and canon(c_.args[0]) == 'self.until_marker' and _group_helper(repo, c_.func.id) is not None for c_ in ast.walk(tail))
                if ('re.escape(self.until_marker)' in tt and ('self.until_marker.pattern' in tt or helper_tail)) or tt in ('re.escape(self.until_marker)', 'self.until_marker.pattern'):
                    if len(ops) >= 2 and _unconstrained(ops[0]):
                        ctx.holds(rule, dt, st, 'body pattern followed by the escaped marker / the marker pattern', e.lineno, clause='d')
                    else:
                        ctx.violation(rule, dt, st, 'the delimited Any pattern has no body part before the delimiter', e.lineno, clause='d')
                else:
                    ctx.violation(rule, dt, st, 'the delimited Any pattern does not end with the escaped marker / marker pattern', e.lineno, clause='d')
    ctx.unit('data_any_renderings', n)
    ctx.floor('Data Any renderings', n, 3)


def check_assembly(ctx, repo):
    fr = repo.cls('FragmentsOfRegexps')
    ins = fr.methods.get('insert')
    asm = fr.methods.get('assemble_regexp')
    if ins is None or asm is None:
        raise Undecided('anchor FragmentsOfRegexps.insert / assemble_regexp not found')
    w = repo.walker()
    rule = 'R12-literal-escape'
    for p in repo.walker(split_ifexp=True).paths(ins.node, cls=fr):
        if p.raises():
            continue
        gt = guard_texts(p.guards)
        stores = [e for e in p.effects if e.kind == 'store_sub' and 'regexp' in canon(e.obj)]
        base = [e for e in p.calls() if call_name(e.call) == 'Fragments.insert']
        lit = 'is_literal' in gt
        for s in stores:
            st = 'is_literal=%s: %s' % (lit, s.text())
            sval = s.value
            # the expression kept as a component of a record (a tuple, a namedtuple built in place):
            # judged by the component that holds it -- the one made of the chunk itself
            comps = None
            if isinstance(sval, ast.Tuple):
                comps = list(sval.elts)
            elif isinstance(sval, ast.Call) and isinstance(sval.func, ast.Name) and sval.func.id in repo.records() and not sval.keywords:
                comps = list(sval.args)
            if comps is not None:
                hold = [c for c in comps if any(isinstance(x, ast.Name) and x.id == 'string' for x in ast.walk(c)) and not (isinstance(c, ast.Call) and call_name(c) == 'len')]
                if len(hold) == 1:
                    sval = hold[0]
                else:
                    ctx.undecided(rule, ins, st, 'the expression is kept inside a record: cannot tell which component is the expression', s.lineno, clause='a')
                    continue

            class _S:
                pass
            s_ = _S()
            s_.value, s_.name, s_.lineno = sval, s.name, s.lineno
            s = s_
            if lit:
                if call_name(s.value) in ('re.escape', 'escape') and canon(s.value.args[0]) == 'string':
                    ctx.holds(rule, ins, st, 'literal chunks are escaped', s.lineno, clause='a')
                else:
                    ctx.violation(rule, ins, st, 'a literal chunk is stored in the pattern without re.escape', s.lineno, clause='a')
            else:
                if canon(s.value) == 'string':
                    ctx.holds(rule, ins, st, 'pattern chunks are stored as given', s.lineno, clause='a')
                else:
                    ctx.violation(rule, ins, st, 'a pattern chunk is altered (%s)' % canon(s.value), s.lineno, clause='a')
            if canon(s.name) != 'position':
                ctx.violation(rule, ins, st, 'the chunk is not recorded at its position', s.lineno, clause='a')
        if not stores:
            ctx.violation(rule, ins, 'path [%s]' % '; '.join(sorted(gt)), 'no pattern is recorded for the chunk', ins.node.lineno, clause='a')
        if not base:
            ctx.violation(rule, ins, 'path [%s]' % '; '.join(sorted(gt)), 'the chunk is not placed in the underlying buffer (holes / collisions are lost)', ins.node.lineno, clause='a')
        elif not lit:
            # a pattern chunk holds its place in the buffer with a placeholder: chunks are keyed by
            # position, so the placeholder must not be empty (the next chunk would take the same
            # position and replace this one in the expression)
            args = base[0].call.args
            ph = args[2] if len(args) > 2 else None
            st = 'is_literal=False: placeholder %s' % (canon(ph) if ph is not None else None)
            if isinstance(ph, ast.Constant) and isinstance(ph.value, bytes) and len(ph.value) >= 1:
                ctx.holds(rule, ins, st, 'occupies a position of its own', base[0].lineno, clause='a')
            elif isinstance(ph, ast.Constant):
                ctx.violation(rule, ins, st, 'an empty placeholder: the chunk does not occupy a position and the next chunk replaces it in the expression', base[0].lineno, clause='a', witness=True)
            else:
                zero = []
                for cn in ('Int', 'Data', 'Bits'):
                    f_ = repo.cls(cn).methods.get('pack_regexp')
                    for c in (ast.walk(f_.node) if f_ is not None else []):
                        if isinstance(c, ast.Call) and isinstance(c.func, ast.Attribute) and c.func.attr in ('append', 'insert', 'extend'):
                            for k in c.keywords:
                                if k.arg and ph is not None and any(isinstance(x, ast.Name) and x.id == k.arg for x in ast.walk(ph)) \
                                        and isinstance(k.value, ast.Constant) and k.value.value in (0, b'', ''):
                                    zero.append((f_, c))
                if zero:
                    f_, c = zero[0]
                    ctx.violation(rule, f_, '%s with placeholder %s' % (stmt_text(c)[:90], canon(ph)), 'a pattern chunk that occupies no position: chunks are keyed by position, the chunk that follows takes the same one and this chunk disappears from the expression', c.lineno, clause='a', witness=True)
                else:
                    ctx.undecided(rule, ins, st, 'cannot see that the placeholder of a pattern chunk is never empty', base[0].lineno, clause='a')
    # (e) holes
    rule = 'R12-holes'
    # assemble_regexp and what it delegates to (a generator of the pieces, a helper)
    members = [f for f in repo.reach(asm, depth=2) if f is asm or f.cls is fr]
    okh = False
    for f_ in members:
        for n in ast.walk(f_.node):
            if isinstance(n, ast.BinOp) and isinstance(n.op, ast.Mod) and isinstance(n.left, ast.Constant) and isinstance(n.left.value, (str, bytes)):
                fmt = n.left.value
                fmt = fmt.decode('latin-1') if isinstance(fmt, bytes) else fmt
                st = stmt_text(n)
                if fmt in ('(?:.{%i})', '(?:.{%d})'):
                    okh = True
                    ctx.holds(rule, f_, st, 'a hole of n bytes matches exactly n arbitrary bytes', n.lineno, clause='e')
                else:
                    okh = True
                    ctx.violation(rule, f_, st, 'holes must render as (?:.{n})', n.lineno, clause='e', witness=True)
    if not okh:
        ctx.violation(rule, asm, 'assemble_regexp', 'holes between chunks are not rendered: the pattern is shorter than the packet', asm.node.lineno, clause='e')
    # gap arithmetic: hole_length = offset - begin; begin = offset + len(string); sorted walk
    done = False
    for f_ in members:
        for p in w.paths(f_.node, cls=fr):
            for e in p.effects:
                if e.kind == 'loop' and not done:
                    it = canon(e.sub['iter'])
                    if not it.startswith('sorted('):
                        plain = it in ('self.regexp_by_position.items()', 'self.regexp_by_position', 'self.regexp_by_position.keys()', 'self.fragments', 'self.fragments.items()')
                        if it == 'self.begin_of_fragments':
                            ctx.violation(rule, f_, 'for ... in %s' % it, 'the index of begins holds a position once per insert: a position where an empty chunk was replaced is visited twice and its pattern is emitted twice', e.lineno, clause='e', witness=True)
                        elif plain:
                            ctx.violation(rule, f_, 'for ... in %s' % it, 'chunks are not assembled in position order', e.lineno, clause='e', witness=True)
                        else:
                            ctx.undecided(rule, f_, 'for ... in %s' % it, 'cannot see that the chunks are assembled in position order', e.lineno, clause='e')
                    else:
                        ctx.holds(rule, f_, 'for ... in %s' % it, 'chunks assembled in position order', e.lineno, clause='e')
                    done = True
            if done:
                break


def check_prefix_and_match(ctx, repo):
    pk = repo.cls('Packet')
    are = pk.methods.get('as_regular_expression')
    if are is None:
        raise Undecided('anchor Packet.as_regular_expression not found')
    rule = 'R12-dotall-prefix'
    found = False
    for n in ast.walk(are.node):
        if isinstance(n, ast.Call) and call_name(n) in ('re.compile', 'compile') and n.args:
            found = True
            ops = concat_ops(n.args[0])
            st = stmt_text(n)[:140]
            first = ops[0]
            if isinstance(first, ast.Constant) and isinstance(first.value, bytes) and first.value.startswith(b'(?s)'):
                ctx.holds(rule, are, st, '(?s): . matches every byte', n.lineno, clause='b')
            else:
                flags = [unparse(a) for a in n.args[1:]] + [unparse(k.value) for k in n.keywords]
                if any('DOTALL' in f or 're.S' in f for f in flags):
                    ctx.holds(rule, are, st, 're.DOTALL flag', n.lineno, clause='b')
                else:
                    ctx.violation(rule, are, st, 'the pattern is not compiled in DOTALL mode: a packet with a newline byte in a don\'t-care position is rejected', n.lineno, clause='b')
            if not any('assemble_regexp' in canon(o) for o in ops):
                ctx.violation(rule, are, st, 'the compiled pattern is not the assembled one', n.lineno, clause='b')
    if not found:
        ctx.undecided(rule, are, 'as_regular_expression', 'no re.compile call found', are.node.lineno)
    impl = pk.methods.get('as_regular_expression_impl')
    if impl is not None:
        loops = [n for n in ast.walk(impl.node) if isinstance(n, ast.For)]
        ok = False
        for lp in loops:
            if canon(lp.iter, {'self': 'PKT'}) == 'PKT.get_fields()' and not any(isinstance(x, (ast.Break, ast.Continue, ast.If)) for s in lp.body for x in ast.walk(s)):
                calls = [c for s in lp.body for c in ast.walk(s) if isinstance(c, ast.Call) and isinstance(c.func, ast.Attribute) and c.func.attr == 'pack_regexp']
                if calls:
                    ok = True
        if ok:
            ctx.holds('R12-all-fields', impl, 'for ... in self.get_fields(): f.pack_regexp(self, fragments, ...)', 'every field contributes, in order', impl.node.lineno, clause='b')
        else:
            ctx.violation('R12-all-fields', impl, 'as_regular_expression_impl', 'not every field contributes its pattern unconditionally', impl.node.lineno, clause='b')
    fl = repo.module_funcs.get(('pattern_matching', 'filter_like'))
    if fl is None:
        raise Undecided('anchor pattern_matching.filter_like not found')
    rule = 'R12-prefix-match'
    meths = {n.attr for n in ast.walk(fl.node) if isinstance(n, ast.Attribute) and n.attr in ('match', 'search', 'fullmatch', 'findall', 'finditer')}
    if 'fullmatch' in meths:
        ctx.violation(rule, fl, 'filter_like uses %s' % sorted(meths), 'fullmatch rejects strings with bytes after the packet, which unpack accepts', fl.node.lineno, clause='b')
    elif meths & {'match', 'search'}:
        ctx.holds(rule, fl, 'filter_like uses %s' % sorted(meths), 'prefix match / scan', fl.node.lineno, clause='b')
    else:
        ctx.undecided(rule, fl, 'filter_like', 'no match/search found', fl.node.lineno)
    # filter: unpack(silent=True) + equality on everything that passed
    fil = repo.module_funcs.get(('pattern_matching', 'filter'))
    if fil is not None:
        src = unparse(fil.node)
        if 'silent=True' in src:
            ctx.holds(rule, fil, 'cls.unpack(r, silent=True)', 'strings that do not parse are dropped, not fatal', fil.node.lineno, clause='b')
        else:
            ctx.violation(rule, fil, 'filter', 'candidates that fail to parse abort the filter', fil.node.lineno, clause='b')


def _expand_properties(ci, node):
    """a copy of the function where self.<p>, p a one-expression property of the class, is replaced by that expression"""
    import copy
    props = {}
    for name, m_ in ci.methods.items():
        decs = [canon(d) for d in m_.node.decorator_list]
        body = [s_ for s_ in m_.node.body if not (isinstance(s_, ast.Expr) and isinstance(s_.value, ast.Constant))]
        if 'property' in decs and len(body) == 1 and isinstance(body[0], ast.Return) and body[0].value is not None:
            props[name] = body[0].value

    class T(ast.NodeTransformer):
        def visit_Attribute(self, n):
            self.generic_visit(n)
            if isinstance(n.value, ast.Name) and n.value.id == 'self' and n.attr in props and isinstance(n.ctx, ast.Load):
                return copy.deepcopy(props[n.attr])
            return n
    if not props:
        return node
    return ast.fix_missing_locations(T().visit(copy.deepcopy(node)))


def check_any(ctx, repo):
    """(h) an unconstrained Any placeholder compares equal to everything (== True, != False), a
    constrained one by regex search; anything_like sets every field of get_fields() to Any()"""
    rule = 'R12-any-equality'
    an = repo.cls('Any')
    m = an.methods
    w = repo.walker()
    want = {'eq_for_any': True, 'ne_for_any': False}
    for name, val in want.items():
        fi = m.get(name)
        if fi is None:
            ctx.violation(rule, (an.file, 'Any'), 'Any.%s' % name, 'method not found', an.node.lineno, clause='h')
            continue
        rets = [p.ret() for p in w.paths(fi.node, cls=an)]
        if all(isinstance(r, ast.Constant) and r.value is val for r in rets) and rets:
            ctx.holds(rule, fi, 'Any.%s -> %s' % (name, val), 'a placeholder matches every value', fi.node.lineno, clause='h')
        else:
            ctx.violation(rule, fi, 'Any.%s -> %s' % (name, [canon(r) if r is not None else None for r in rets]), 'an unconstrained placeholder must compare %s to everything: otherwise filter() drops packets the regexp let through' % ('equal' if val else 'not unequal'), fi.node.lineno, clause='h')
    for name, neg in (('eq_for_regexp', False), ('ne_for_regexp', True)):
        fi = m.get(name)
        if fi is None:
            continue
        rets = [p.ret() for p in w.paths(fi.node, cls=an)]
        other = fi.node.args.args[1].arg
        wanted = ('not ' if neg else '') + 'bool(self.regexp.search(%s))' % other
        if rets and all(r is not None and canon(r) == wanted for r in rets):
            ctx.holds(rule, fi, 'Any.%s -> %s' % (name, wanted), 'constrained placeholder: regex search on the value', fi.node.lineno, clause='h')
        else:
            ctx.violation(rule, fi, 'Any.%s -> %s' % (name, [canon(r) if r is not None else None for r in rets]), 'expected %s' % wanted, fi.node.lineno, clause='h')
    for name, a, b in (('__eq__', 'eq_for_any', 'eq_for_regexp'), ('__ne__', 'ne_for_any', 'ne_for_regexp')):
        fi = m.get(name)
        if fi is None:
            ctx.violation(rule, (an.file, 'Any'), 'Any.%s' % name, 'not defined: Python falls back to identity / the negation of __eq__', an.node.lineno, clause='h')
            continue
        other = fi.node.args.args[1].arg
        ok = True
        for p in repo.walker(split_ifexp=True).paths(_expand_properties(an, fi.node), cls=an):
            gt = set(p.guard_texts())
            r = p.ret()
            t = canon(r) if r is not None else None
            if '(self.regexp is None)' in gt:
                ok = ok and t == 'self.%s(%s)' % (a, other)
            elif '(self.regexp is not None)' in gt:
                ok = ok and t == 'self.%s(%s)' % (b, other)
            else:
                ok = False
        if ok:
            ctx.holds(rule, fi, 'Any.%s dispatches on regexp is None' % name, 'unconstrained -> %s, constrained -> %s' % (a, b), fi.node.lineno, clause='h')
        else:
            ctx.violation(rule, fi, 'Any.%s' % name, 'the comparison does not dispatch to %s / %s on "regexp is None"' % (a, b), fi.node.lineno, clause='h')
    al = repo.module_funcs.get(('pattern_matching', 'anything_like'))
    if al is not None:
        okl = False
        for lp in [n for n in ast.walk(al.node) if isinstance(n, ast.For)]:
            if 'get_fields()' in canon(lp.iter) and not any(isinstance(x, (ast.If, ast.Break, ast.Continue)) for s_ in lp.body for x in ast.walk(s_)):
                sets = [c for s_ in lp.body for c in ast.walk(s_) if isinstance(c, ast.Call) and call_name(c) == 'setattr' and len(c.args) == 3 and call_name(c.args[2]) == 'Any' and not c.args[2].args]
                if sets and isinstance(lp.target, ast.Tuple) and canon(sets[0].args[1]) == canon(lp.target.elts[0]):
                    okl = True
                # the name is the first component of the entry, taken by subscript
                first = [s_ for s_ in lp.body if isinstance(s_, ast.Assign) and len(s_.targets) == 1 and isinstance(s_.targets[0], ast.Name)
                         and isinstance(lp.target, ast.Name) and canon(s_.value) == '%s[0]' % lp.target.id]
                if sets and first and lp.body[0] is first[0] and canon(sets[0].args[1]) == first[0].targets[0].id:
                    okl = True
        if okl:
            ctx.holds(rule, al, 'anything_like: setattr(pkt, field_name, Any()) for every get_fields() entry', 'every field is a don\'t-care', al.node.lineno, clause='h')
        else:
            ctx.violation(rule, al, 'anything_like', 'not every field of the packet is set to an unconstrained Any()', al.node.lineno, clause='h')


def check_fresh_expression(ctx, repo):
    """(i) as_regular_expression computes the pattern from the current field values on every
    call: fresh FragmentsOfRegexps, every field contributes, the compiled pattern is the one
    assembled from that buffer; nothing is remembered on the packet"""
    rule = 'R12-fresh-expression'
    pk = repo.cls('Packet')
    are = pk.methods.get('as_regular_expression')
    tagf = lambda c: 'buffer' if call_name(c) in ('FragmentsOfRegexps',) else None
    w = repo.walker(tag=tagf)
    paths = [p for p in w.paths(are.node, cls=pk) if not p.raises()]
    for p in paths:
        label = 'path [%s]' % '; '.join(p.guard_texts())[:140]
        for e in p.all_effects():
            if (e.kind in ('store_attr', 'setattr') and canon(e.obj) == 'self') or (e.kind == 'store_sub' and canon(e.obj).startswith('self.')):
                ctx.violation(rule, are, 'as_regular_expression: %s' % e.text()[:100], 'the expression is remembered on the pattern packet: after a field is changed (e.g. relaxed back to Any) the stale, tighter expression is reused', e.lineno, clause='i')
        bufs = [e for e in p.calls() if e.value is not None and isinstance(e.value, ast.Name) and e.value.id.startswith('<#')]
        impl = [e for e in p.calls() if isinstance(e.call.func, ast.Attribute) and e.call.func.attr == 'as_regular_expression_impl']
        r = p.ret()
        ok = len(bufs) == 1 and len(impl) == 1 and impl[0].call.args and canon(impl[0].call.args[0]) == bufs[0].value.id \
            and r is not None and call_name(r) in ('re.compile', 'compile') and ('%s.assemble_regexp()' % bufs[0].value.id) in canon(r)
        if ok:
            ctx.holds(rule, are, label + ' -> re.compile(... + buffer.assemble_regexp())', 'fresh buffer, filled by every field, compiled on this call', are.node.lineno, clause='i')
        else:
            ctx.violation(rule, are, label + ' -> %s' % (canon(r)[:100] if r is not None else None), 'a path returns an expression that was not assembled on this call from the current field values', are.node.lineno, clause='i')
    if not paths:
        ctx.violation(rule, are, 'as_regular_expression', 'no returning path', are.node.lineno, clause='i')


def check_unpack_siblings(ctx, repo):
    """(j) the pattern describes what unpack accepts: the delimiter the pattern requires is
    required by the unpack strategy (C06 c, d), sized reads are exact (C06 b), and the bit
    groups the character classes assume are laid out MSB-first / big-endian (C07 e)"""
    from . import c06, c07
    # Round 5: a fixed Int is rendered by the field's own pack (the struct object / to_bytes that
    # Int._compile installs): width, byte order and signedness of that codec (C05 a, b)
    from . import c05
    ici = repo.cls('Int')
    if ici.methods.get('_compile') is not None:
        c05.check_compile(ctx, ici, ici.methods['_compile'])
    ci = repo.cls('Data')
    sel = c06.check_selection(ctx)
    seen = set()
    for kind in ('int', 'field', 'callable', 'expression'):
        t = sel.get(kind)
        if t is None:
            continue
        fi = repo.method(ci, t)
        key = (fi.id, 'callable' if kind == 'expression' else kind)
        if key in seen:
            continue
        seen.add(key)
        c06.classify_sized(ctx, ci, fi, 'callable' if kind == 'expression' else kind)
    for kind, regex in (('bytes-marker', False), ('regex-marker', True)):
        t = sel.get(kind)
        if t is not None:
            c06.classify_marker(ctx, ci, repo.method(ci, t), regex)
    c07.check_compile(ctx, repo.cls('Bits'))


def check_bits(ctx, repo):
    """(f) the four byte shapes of Bits.pack_regexp"""
    rule = 'R12-bits-classes'
    bi = repo.cls('Bits')
    fi = bi.methods.get('pack_regexp')
    if fi is None:
        raise Undecided('anchor Bits.pack_regexp not found')
    src_nodes = list(ast.walk(fi.node))
    # mixed pattern set  {(p & dont_care_mask) | fixed_pattern for p in range(256)}
    ok_mixed = False
    for n in src_nodes:
        if isinstance(n, (ast.GeneratorExp, ast.SetComp, ast.ListComp)) and isinstance(n.elt, ast.BinOp) and isinstance(n.elt.op, ast.BitOr):
            elt = n.elt
            v = n.generators[0].target.id if isinstance(n.generators[0].target, ast.Name) else None
            sides = [elt.left, elt.right]
            anded = [s for s in sides if isinstance(s, ast.BinOp) and isinstance(s.op, ast.BitAnd)]
            other = [s for s in sides if s not in anded]
            st = stmt_text(n)
            if len(anded) == 1 and len(other) == 1 and v in {x.id for x in ast.walk(anded[0]) if isinstance(x, ast.Name)} and isinstance(other[0], ast.Name):
                ok_mixed = True
                ctx.holds(rule, fi, st, 'class = {(p & dont_care) | fixed}', n.lineno, clause='f')
            else:
                ok_mixed = True
                ctx.violation(rule, fi, st, 'the mixed-pattern class is not {(p & dont_care) | fixed}', n.lineno, clause='f')
    if not ok_mixed:
        # Round 8: the sub-masks of the dont-care mask walked with  while s: ...; s = (s - 1) & mask
        # visit every non-empty subset and stop before the empty one: the byte whose free bits are
        # all clear (the fixed pattern itself) must be added apart, or it is missing from the class
        for fn_ in repo.reach(fi, depth=2) if hasattr(repo, 'reach') else [fi]:
            par_ = {}
            for pn in ast.walk(fn_.node):
                for c_ in ast.iter_child_nodes(pn):
                    par_[id(c_)] = pn
            for wl in ast.walk(fn_.node):
                if not (isinstance(wl, ast.While) and isinstance(wl.test, ast.Name)):
                    continue
                v = wl.test.id
                step = [a for a in ast.walk(wl) if isinstance(a, ast.Assign) and len(a.targets) == 1 and canon(a.targets[0]) == v and isinstance(a.value, ast.BinOp)
                        and isinstance(a.value.op, ast.BitAnd) and any(isinstance(x, ast.BinOp) and isinstance(x.op, ast.Sub) and canon(x.left) == v for x in ast.walk(a.value))]
                if not step:
                    continue
                ok_mixed = True
                blk = None
                pp = par_.get(id(wl))
                for fld in ('body', 'orelse', 'finalbody'):
                    b_ = getattr(pp, fld, None)
                    if isinstance(b_, list) and wl in b_:
                        blk = b_
                after = blk[blk.index(wl) + 1:] if blk else []
                before = blk[:blk.index(wl)] if blk else []
                lists_ = {canon(x.func.value) for x in ast.walk(wl) if isinstance(x, ast.Call) and isinstance(x.func, ast.Attribute) and x.func.attr in ('append', 'add', 'insert')}
                apart = [x for st_ in after + before for x in ast.walk(st_) if isinstance(x, ast.Call) and isinstance(x.func, ast.Attribute) and x.func.attr in ('append', 'insert', 'add', 'extend')
                         and canon(x.func.value) in lists_]
                seeded_list = [x for st_ in before for x in ast.walk(st_) if isinstance(x, ast.Assign) and isinstance(x.value, (ast.List, ast.Set)) and x.value.elts
                               and canon(x.targets[0]) in lists_]
                st = 'while %s: ...; %s' % (v, stmt_text(step[0])[:60])
                if apart or seeded_list:
                    ctx.undecided(rule, fn_, st, 'sub-mask walk with an element added apart: cannot see that it is the empty sub-mask (the fixed pattern itself)', wl.lineno, clause='f')
                else:
                    ctx.violation(rule, fn_, st, 'the walk over the sub-masks of the dont-care bits stops before the empty sub-mask: the byte whose dont-care bits are all 0 (the fixed pattern itself) is missing from the character class, so a packet with those bits clear is rejected by the pre-filter', wl.lineno, clause='f', witness=True)
    if not ok_mixed:
        ctx.undecided(rule, fi, 'mixed pattern class', 'comprehension not found', fi.node.lineno, clause='f')
    # masks: fixed = byte.replace('x','0'); dont_care = byte.replace('1','0').replace('x','1')
    for n in src_nodes:
        if isinstance(n, ast.Assign) and isinstance(n.targets[0], ast.Name) and isinstance(n.value, ast.Call) and call_name(n.value) == 'int':
            t = canon(n.value.args[0]) if n.value.args else ''
            name = n.targets[0].id
            if ".replace('x', '0')" in t and ".replace('1', '0')" not in t and 'replace' in t and 'mask' not in name:
                ctx.holds(rule, fi, stmt_text(n), 'fixed bits: don\'t-care positions zeroed', n.lineno, clause='f')
            elif ".replace('1', '0').replace('x', '1')" in t:
                ctx.holds(rule, fi, stmt_text(n), 'don\'t-care mask: fixed ones cleared first, then x -> 1', n.lineno, clause='f')
            elif 'replace' in t:
                ctx.violation(rule, fi, stmt_text(n), 'the bit pattern is converted with the wrong replacements', n.lineno, clause='f')
    # range form only when the don't-care bits are a suffix; bounds are lower=...0s, higher=...1s
    lower = [n for n in src_nodes if isinstance(n, ast.Assign) and isinstance(n.targets[0], ast.Name) and isinstance(n.value, ast.BinOp)
             and isinstance(n.value.right, ast.BinOp) and isinstance(n.value.right.op, ast.Mult)]
    for n in lower:
        r = n.value.right
        c = r.left if isinstance(r.left, ast.Constant) else r.right
        if isinstance(c, ast.Constant) and c.value in ('0', '1'):
            nm = n.targets[0].id
            want = '0' if 'low' in nm else '1' if 'high' in nm else None
            if want is None:
                continue
            if c.value == want:
                ctx.holds(rule, fi, stmt_text(n), 'range bound pads the don\'t-care suffix with %s' % want, n.lineno, clause='f')
            else:
                ctx.violation(rule, fi, stmt_text(n), 'the %s bound of the range pads with %s' % (nm, c.value), n.lineno, clause='f')


def check(ctx):
    repo = ctx.repo
    _REPO[0] = repo
    total = 0
    for cname in ('Int', 'Data', 'Bits'):
        ci = repo.cls(cname)
        fi = ci.methods.get('pack_regexp')
        if fi is None:
            ctx.violation('R12-escape-discipline', (ci.file, cname), '%s.pack_regexp' % cname, 'the field kind has no pack_regexp: as_regular_expression raises NotImplementedError', ci.node.lineno)
            continue
        ctx.unit('functions')
        check_pack_regexp(ctx, cname, ci, fi)
    check_widths(ctx, repo)
    check_delimiter_pattern_is_a_group(ctx, repo)
    check_user_callables(ctx, repo)
    check_assembly(ctx, repo)
    # assemble_regexp reads the stored chunk of every recorded position (its length closes the
    # gap arithmetic): the base insert stores exactly one chunk on every path that returns
    from .c11 import check as c11_check
    c11_check(ctx, parts=('store',))
    # Round 7: the pattern of a fixed value is what the field's own pack emits, and the pre-filter is
    # exact only if the packet's unpack decodes those bytes the same way: the generated struct
    # blocks use each field's own endianness (C03-d)
    from .c03 import check_struct_block
    try:
        check_struct_block(ctx)
    except Undecided as e:
        ctx.undecided('R2-struct-block', ('bisturi/codegen.py', 'CodeGenerator'), 'struct blocks', str(e), 0, clause='d')
    # Round 8: "unpack equal to the pattern" is Packet.__eq__: it compares every declared field (C20)
    from .c20 import check_eq_shape
    try:
        pk_ = repo.cls('Packet')
        check_eq_shape(ctx, pk_, repo.method(pk_, '__eq__'))
    except Undecided as e:
        ctx.undecided('R11-eq-shape', ('bisturi/packet.py', 'Packet.__eq__'), '__eq__', str(e), 0)
    check_prefix_and_match(ctx, repo)
    check_bits(ctx, repo)
    check_any(ctx, repo)
    check_fresh_expression(ctx, repo)
    check_unpack_siblings(ctx, repo)
    # (g) building the pattern is stateless: a cache on a shared object makes the pattern of one
    # packet depend on the patterns built before it
    from .c13 import check_statelessness
    regexp_funcs = []
    for fi in repo.functions.values():
        last = fi.qual.split('.')[-1]
        if last in ('pack_regexp', 'as_regular_expression', 'as_regular_expression_impl', 'assemble_regexp') or fi.module == 'pattern_matching' \
                or (fi.cls is not None and fi.cls.name == 'FragmentsOfRegexps'):
            if last not in ('__init__',):
                regexp_funcs.append(fi)
    check_statelessness(ctx, regexp_funcs)
    # cross-reference (outside the declared scope, not a verdict)
    for cname in ('Sequence', 'Optional'):
        if repo.has_cls(cname):
            fi = repo.cls(cname).methods.get('pack_regexp')
            if fi is not None:
                names = {n.id for n in ast.walk(fi.node) if isinstance(n, ast.Name)}
                modnames = set()
                for n in repo.modules[fi.module]['tree'].body:
                    if isinstance(n, (ast.Import, ast.ImportFrom)):
                        for a in n.names:
                            modnames.add((a.asname or a.name).split('.')[0])
                missing = sorted(x for x in ('Any', 'FragmentsOfRegexps') if x in names and x not in modnames)
                if missing:
                    ctx.note('%s.pack_regexp uses undefined names %s (outside the declared scope of C18)' % (cname, missing))
    ctx.floor('pattern chunks analysed', ctx.units.get('pattern_chunks', 0), 9)
    ctx.floor('maybe-Any sinks analysed', ctx.units.get('any_sinks', 0), 4)
    ctx.trust(*ASSUMPTIONS)
