"""C11 -- the output buffer never loses, overwrites or misplaces bytes.

Rule family R8 (interval normal forms) on bisturi/fragments.py::Fragments:

 (1) cursor:   on every non-raising path of insert, current_offset := position + len(string);
 (2) store:    the only mutation of the chunk map is one subscript store keyed by
               ``position`` holding ``string``; nothing deletes/pops/rewrites another key;
 (3) index:    the sorted list of begins gets ``position`` at bisect_right(begins, position);
 (4) guards:   the collision guards, in the linear normal form, are the exact overlap
               predicates under the facts bisect provides (b1 <= position < b2):
               predecessor  position < b1 + len(chunk[b1])   (b1 = begins[bisect_right-1]),
               successor    b2 < position + len(string)  AND the successor is non-empty
               (insert has no emptiness guard, so stored chunks may be empty);
               every non-raising path over a non-empty map passed both tests;
 (5) tobytes:  walks chunks in position order and emits fill*(offset-begin), the chunk,
               then begin := offset + len(chunk); starts at 0; joins in order;
 (6) append/extend insert at the cursor;
 (7) a rejected insert leaves the buffer untouched: on every raising path nothing (cursor,
     chunk map, index) is written before the raise.
The sparse-array behaviour over all histories (an inductive invariant) is not decided.
"""
import ast

from .. import Undecided
from ..expr import canon, lin, lin_sub, cmp_form, conj, negate, call_name, unparse, parse_expr
from ..model import stmt_text

EXPLANATION = __doc__
LEVEL_RULE = 'one obligation per (clause, path | guard | statement) of Fragments.insert / tobytes / append / extend'
ASSUMPTIONS = [
    'bisect_right(a, x) returns the index after the last element <= x of a sorted list (stdlib table)',
    'sorted(dict.items()) orders chunks by position; list.insert(i, x) keeps the other elements',
    'a negative list index wraps around (begins[-1] is the last begin): the b1 <= position literal covers bisect == 0',
]

BEG = 'self.begin_of_fragments'


def form_of(src):
    return cmp_form(parse_expr(src))


def neg_form(f):
    return {k: -v for k, v in f.items()}


def check(ctx, parts=('cursor', 'store', 'index', 'guards', 'atomic', 'tobytes', 'append', 'fill')):
    repo = ctx.repo
    fr = repo.cls('Fragments')
    ins = fr.methods.get('insert')
    tob = fr.methods.get('tobytes')
    if ins is None or tob is None:
        raise Undecided('anchor Fragments.insert / Fragments.tobytes not found')
    params = [a.arg for a in ins.node.args.args]
    if len(params) < 3:
        raise Undecided('Fragments.insert does not take (self, position, string)')
    POS, STR = params[1], params[2]
    # discover the names of the two containers from __init__ (dict = chunk map, list = begins)
    init = fr.methods.get('__init__')
    cmap = begins = None
    if init is not None:
        for n in ast.walk(init.node):
            if isinstance(n, ast.Assign) and isinstance(n.targets[0], ast.Attribute) and isinstance(n.targets[0].value, ast.Name) and n.targets[0].value.id == 'self':
                if isinstance(n.value, ast.Dict) and not n.value.keys:
                    cmap = n.targets[0].attr
                elif isinstance(n.value, ast.List) and not n.value.elts:
                    begins = n.targets[0].attr
    if cmap is None or begins is None:
        raise Undecided('cannot identify the chunk map / begins list in Fragments.__init__')
    CM, BG = 'self.' + cmap, 'self.' + begins
    ctx.unit('functions', 4)

    w = repo.walker(inline_depth=0, max_paths=ctx.max_paths)
    paths = w.paths(ins.node, cls=fr)
    ctx.unit('paths', len(paths))
    ok_paths = [p for p in paths if not p.raises()]
    bad_paths = [p for p in paths if p.raises()]

    I = 'bisect_right(%s, %s)' % (BG, POS)
    b1 = canon(parse_expr('%s[%s - 1]' % (BG, I)))
    b2 = canon(parse_expr('%s[%s - 1 + 1]' % (BG, I)))
    e1_terms = {b1: 1, canon(parse_expr('len(%s[%s[%s - 1]])' % (CM, BG, I))): 1}
    L = 'len(%s)' % STR
    pred_form = lin_sub({POS: 1}, e1_terms)                  # position - e1  < 0
    pred_lo = lin_sub({b1: 1}, {POS: 1})                     # b1 - position <= 0
    succ_form = lin_sub({b2: 1}, {POS: 1, L: 1})             # b2 - position - L < 0
    nonempty_succ = canon(parse_expr('len(%s[%s[%s - 1 + 1]])' % (CM, BG, I)))

    # ---------------------------------------------------------- (1) cursor
    for p in (ok_paths if 'cursor' in parts else []):
        st = [e for e in p.effects if e.kind == 'store_attr' and canon(e.obj) == 'self' and e.name == 'current_offset']
        label = 'path [%s]' % '; '.join(p.guard_texts())
        if not st:
            ctx.violation('R8-cursor', ins, label, 'a non-raising path does not move the cursor', ins.node.lineno, clause='1')
            continue
        v = st[-1].value
        if lin(v) == {POS: 1, L: 1}:
            ctx.holds('R8-cursor', ins, 'self.current_offset = %s' % canon(v), 'cursor := position + len(string)', st[-1].lineno, clause='1')
        else:
            ctx.violation('R8-cursor', ins, 'self.current_offset = %s' % canon(v), 'cursor is not position + len(string) on path [%s]' % '; '.join(p.guard_texts()), st[-1].lineno, clause='1')

    # ---------------------------------------------------------- (2) store
    mutators = ('pop', 'popitem', 'clear', 'update', 'setdefault', '__delitem__', '__setitem__')
    for p in (ok_paths if 'store' in parts else []):
        subs = [e for e in p.all_effects() if e.kind == 'store_sub' and canon(e.obj) == CM]
        others = [e for e in p.all_effects() if (e.kind == 'del' and CM in canon(e.obj)) or
                  (e.kind == 'call' and isinstance(e.call.func, ast.Attribute) and canon(e.call.func.value) == CM and e.call.func.attr in mutators) or
                  (e.kind == 'store_attr' and canon(e.obj) == 'self' and e.name == cmap)]
        label = 'path [%s]' % '; '.join(p.guard_texts())
        if others:
            ctx.violation('R8-single-store', ins, others[0].text(), 'the chunk map is mutated other than by storing the new chunk: bytes stored earlier can be altered or dropped', others[0].lineno, clause='2')
        if len(subs) != 1:
            ctx.violation('R8-single-store', ins, label, '%d stores into the chunk map on a non-raising path, expected exactly one' % len(subs), ins.node.lineno, clause='2')
            continue
        s = subs[0]
        if canon(s.name) == POS and canon(s.value) == STR:
            ctx.holds('R8-single-store', ins, s.text(), 'one store, keyed by position, holding the chunk unchanged', s.lineno, clause='2')
        else:
            ctx.violation('R8-single-store', ins, s.text(), 'the chunk is stored under key %s with value %s, expected [%s] = %s' % (canon(s.name), canon(s.value), POS, STR), s.lineno, clause='2')

    # ---------------------------------------------------------- (3) sorted index
    for p in (ok_paths if 'index' in parts else []):
        calls = [e for e in p.all_effects() if e.kind == 'call' and isinstance(e.call.func, ast.Attribute) and canon(e.call.func.value) == BG]
        muts = [e for e in calls if e.call.func.attr in ('insert', 'append', 'extend', 'remove', 'pop', 'sort', 'reverse', 'clear')]
        insorts = [e for e in p.all_effects() if e.kind == 'call' and call_name(e.call) in ('insort', 'insort_right', 'bisect.insort', 'bisect.insort_right')
                   and len(e.call.args) >= 2 and canon(e.call.args[0]) == BG and canon(e.call.args[1]) == POS]
        label = 'path [%s]' % '; '.join(p.guard_texts())
        if insorts and not muts:
            ctx.holds('R8-sorted-index', ins, insorts[0].text(), 'insort keeps the begins sorted', insorts[0].lineno, clause='3')
            continue
        if len(muts) != 1 or muts[0].call.func.attr != 'insert' or len(muts[0].call.args) != 2:
            ctx.violation('R8-sorted-index', ins, label + ' ' + '; '.join(m.text() for m in muts), 'the begins list is not updated by exactly one insert(index, position)', ins.node.lineno, clause='3')
            continue
        m = muts[0]
        idx, val = m.call.args
        if canon(val) != POS:
            ctx.violation('R8-sorted-index', ins, m.text(), 'the value inserted in the begins list is not the position', m.lineno, clause='3')
        elif lin(idx) == {I: 1}:
            ctx.holds('R8-sorted-index', ins, m.text(), 'insertion index == bisect_right(begins, position)', m.lineno, clause='3')
        else:
            ctx.violation('R8-sorted-index', ins, m.text(), 'insertion index %s is not bisect_right(begins, position): the begins list loses its order' % canon(idx), m.lineno, clause='3')

    # ---------------------------------------------------------- (4) collision guards
    pred_tests, succ_tests = [], []
    for p in (bad_paths if 'guards' in parts else []):
        exc = p.end[1]
        if exc is not None and call_name(exc) == 'AssertionError':
            continue
        if not p.guards:
            ctx.violation('R8-collision-guards', ins, 'unconditional raise', 'insert always raises', ins.node.lineno, clause='4')
            continue
        g, pol = p.guards[-1]
        test = g if pol else negate(g)
        lits = [cmp_form(c) for c in conj(test)]
        txt = canon(test)
        if any(l is None for l in lits):
            ctx.undecided('R8-collision-guards', ins, 'raise under %s' % txt, 'the condition of this raise is not a conjunction of linear comparisons', ins.node.lineno, clause='4')
            continue
        forms = [(f, op) for f, op in lits]
        if (pred_form, '<') in forms:
            pred_tests.append(g)
            rest = [x for x in forms if x != (pred_form, '<')]
            extra = [x for x in rest if x != (pred_lo, '<=')]
            if extra:
                ctx.violation('R8-collision-guards', ins, 'predecessor guard %s' % txt, 'extra condition on the predecessor overlap test: some overlaps are not detected', ins.node.lineno, clause='4')
            else:
                ctx.holds('R8-collision-guards', ins, 'predecessor guard %s' % txt, 'exact: position < b1 + len(chunk[b1]) with b1 = begins[bisect_right - 1]', ins.node.lineno, clause='4')
        elif any(b2 in f for f, _ in forms):
            succ_tests.append(g)
            if (succ_form, '<') not in forms:
                ctx.violation('R8-collision-guards', ins, 'successor guard %s' % txt, 'the successor test is not b2 < position + len(string) with b2 = begins[bisect_right] (off-by-one or wrong neighbour)', ins.node.lineno, clause='4')
                continue
            rest = [x for x in forms if x != (succ_form, '<')]
            has_nonempty = any(nonempty_succ in f for f, _ in rest) or any(nonempty_succ in t for t in p.guard_texts())
            if not has_nonempty:
                ctx.violation('R8-collision-guards', ins, 'successor guard %s' % txt,
                              'the successor overlap test does not consult the length of the successor chunk: an empty chunk (what Em().pack appends) makes a later non-overlapping insert raise', ins.node.lineno, clause='4')
            else:
                ctx.holds('R8-collision-guards', ins, 'successor guard %s' % txt, 'exact: b2 < position + len(string) and the successor is non-empty', ins.node.lineno, clause='4')
        elif any(any(b1 in k for k in f if k != 1) for f, _ in forms):
            ctx.violation('R8-collision-guards', ins, 'predecessor guard %s' % txt, 'the predecessor test is not position < b1 + len(chunk[b1]) (off-by-one, wrong neighbour or wrong comparison)', ins.node.lineno, clause='4')
            pred_tests.append(g)
        else:
            ctx.undecided('R8-collision-guards', ins, 'raise under %s' % txt, 'a raise whose condition is not one of the two neighbour tests (a non-empty insert must raise exactly on overlap)', ins.node.lineno, clause='4')
    if not pred_tests and 'guards' in parts:
        ctx.violation('R8-collision-guards', ins, 'no predecessor overlap test', 'insert never raises for an overlap with the chunk that begins at or before position', ins.node.lineno, clause='4')
    if not succ_tests and 'guards' in parts:
        ctx.violation('R8-collision-guards', ins, 'no successor overlap test', 'insert never raises for an overlap with the chunk that begins after position', ins.node.lineno, clause='4')
    # every non-raising path over a non-empty map passed both tests
    for p in (ok_paths if 'guards' in parts else []):
        texts = p.guard_texts()
        empty_map = ('not %s' % CM) in texts or ('(len(%s) == 0)' % CM) in texts or ('not %s' % BG) in texts
        if empty_map:
            ctx.holds('R8-guards-dominate-store', ins, 'path [%s]' % '; '.join(texts), 'empty map: nothing to collide with', ins.node.lineno, clause='4')
            continue
        neg = {canon(g) for g, pol in p.guards if not pol}
        missing = []
        if pred_tests and not any(canon(t) in neg for t in pred_tests):
            missing.append('predecessor')
        no_succ = any(cmp_form(g if pol else negate(g)) is not None and 'len(%s)' % BG in str(cmp_form(g if pol else negate(g))[0]) and not pol for g, pol in p.guards)
        if succ_tests and not any(canon(t) in neg for t in succ_tests) and not no_succ:
            missing.append('successor')
        if missing:
            ctx.violation('R8-guards-dominate-store', ins, 'path [%s]' % '; '.join(texts), 'a path stores the chunk without passing the %s overlap test' % ' and '.join(missing), ins.node.lineno, clause='4')
        else:
            ctx.holds('R8-guards-dominate-store', ins, 'path [%s]' % '; '.join(texts), 'both neighbour tests were passed (or there is no successor)', ins.node.lineno, clause='4')

    # ---------------------------------------------------------- (7) a raise leaves the buffer untouched
    if 'atomic' in parts:
        for p in bad_paths:
            exc = p.end[1]
            if exc is not None and call_name(exc) == 'AssertionError':
                continue
            touched = [e for e in p.all_effects() if (e.kind == 'store_attr' and canon(e.obj) == 'self') or (e.kind == 'store_sub' and canon(e.obj) in (CM, BG))
                       or (e.kind == 'call' and isinstance(e.call.func, ast.Attribute) and canon(e.call.func.value) in (CM, BG) and e.call.func.attr in ('insert', 'append', 'pop', 'remove', 'clear', 'update', 'sort'))]
            label = 'raising path [%s]' % '; '.join(p.guard_texts())[:160]
            if touched:
                ctx.violation('R8-raise-leaves-state', ins, '%s: %s' % (label, touched[0].text()), 'the buffer (cursor / chunk map / index) is modified before the collision is raised: the rejected insert leaves a moved cursor or a stored chunk behind', touched[0].lineno, clause='7')
            else:
                ctx.holds('R8-raise-leaves-state', ins, label, 'nothing is written before the raise', ins.node.lineno, clause='7')

    # ---------------------------------------------------------- (5) tobytes
    if 'tobytes' in parts:
        check_tobytes(ctx, repo, fr, tob, CM)

    # ---------------------------------------------------------- (6) append / extend
    for name in (('append', 'extend') if 'append' in parts else ()):
        fi = fr.methods.get(name)
        if fi is None:
            ctx.undecided('R8-append-at-cursor', (fr.file, 'Fragments.' + name), name, 'method not found')
            continue
        calls = [n for n in ast.walk(fi.node) if isinstance(n, ast.Call) and isinstance(n.func, ast.Attribute) and n.func.attr == 'insert'
                 and isinstance(n.func.value, ast.Name) and n.func.value.id == 'self']
        if len(calls) != 1:
            ctx.undecided('R8-append-at-cursor', fi, name, 'expected exactly one self.insert(...) call', fi.node.lineno)
            continue
        c = calls[0]
        if len(c.args) >= 2 and canon(c.args[0]) == 'self.current_offset':
            ctx.holds('R8-append-at-cursor', fi, stmt_text(c), 'inserts at the cursor', c.lineno, clause='6')
        else:
            ctx.violation('R8-append-at-cursor', fi, stmt_text(c), 'does not insert at the current cursor', c.lineno, clause='6')
    if 'fill' not in parts:
        ctx.floor('paths of Fragments.insert', len(paths), 4)
        return
    # default fill
    init_fill = None
    a = init.node.args
    defaults = dict(zip([x.arg for x in a.args][len(a.args) - len(a.defaults):], a.defaults))
    for n in ast.walk(init.node):
        if isinstance(n, ast.Assign) and isinstance(n.targets[0], ast.Attribute) and n.targets[0].attr == 'fill':
            v = n.value
            if isinstance(v, ast.Name) and v.id in defaults:
                v = defaults[v.id]
            init_fill = v
    if init_fill is not None and isinstance(init_fill, ast.Constant) and init_fill.value == b'.':
        ctx.holds('R8-fill-default', init, 'fill defaults to %s' % canon(init_fill), "holes are rendered as b'.'", init.node.lineno, clause='5')
    else:
        ctx.violation('R8-fill-default', init, 'fill defaults to %s' % (canon(init_fill) if init_fill is not None else '?'), "the default fill is not b'.'", init.node.lineno, clause='5')
    ctx.floor('paths of Fragments.insert', len(paths), 4)
    ctx.trust(*ASSUMPTIONS)


def check_tobytes(ctx, repo, fr, tob, CM):
    rule = 'R8-tobytes'
    w = repo.walker()
    paths = w.paths(tob.node, cls=fr)
    # the rendering is a function of the current chunks only: no state kept on the buffer, and
    # every returning path walks the chunks
    for pp in paths:
        for e in pp.all_effects():
            if (e.kind == 'store_attr' and canon(e.obj) == 'self') or (e.kind == 'setattr' and canon(e.obj) == 'self') or \
                    (e.kind == 'store_sub' and canon(e.obj).startswith('self.')):
                ctx.violation(rule, tob, 'tobytes: %s' % e.text()[:100], 'the rendering keeps state on the buffer (memo): a later insert that does not change what the memo is keyed on returns stale bytes', e.lineno, clause='5')
    full = [pp for pp in paths if not pp.raises() and any(e.kind == 'loop' for e in pp.effects)]
    short = [pp for pp in paths if not pp.raises() and not any(e.kind == 'loop' for e in pp.effects)]
    for pp in short:
        ctx.violation(rule, tob, 'tobytes path [%s] returns %s' % ('; '.join(pp.guard_texts())[:120], canon(pp.ret())[:60] if pp.ret() is not None else None),
                      'a path returns bytes without walking the stored chunks', tob.node.lineno, clause='5')
    if len(full) != 1:
        if not short:
            ctx.undecided(rule, tob, 'Fragments.tobytes', 'expected a single rendering path, found %d' % len(full), tob.node.lineno)
        return
    p = full[0]
    loops = [e for e in p.effects if e.kind == 'loop']
    if len(loops) != 1 or loops[0].sub['kind'] != 'for':
        ctx.undecided(rule, tob, 'Fragments.tobytes', 'expected one for loop over the chunks', tob.node.lineno)
        return
    lp = loops[0]
    it = canon(lp.sub['iter'])
    if it != 'sorted(%s.items())' % CM:
        ctx.violation(rule, tob, 'for ... in %s' % it, 'chunks are not walked in position order (sorted(map.items()))', lp.lineno, clause='5')
    else:
        ctx.holds(rule, tob, 'for ... in %s' % it, 'chunks walked in position order', lp.lineno, clause='5')
    n = lp.sub['phi']
    item = '<item of %d>' % n
    K, V = '%s[0]' % item, '%s[1]' % item
    body = lp.sub['body']
    if len(body) != 1 or body[0].end[0] != 'fall':
        ctx.undecided(rule, tob, 'loop body', 'loop body has branches or exits early', lp.lineno)
        return
    b = body[0]
    carried = [c for c in lp.sub['carried'] if canon(b.env.get(c, ast.Name(id=c))) not in (K, V)]
    apps = [e for e in b.effects if e.kind == 'call' and isinstance(e.call.func, ast.Attribute) and e.call.func.attr == 'append' and len(e.call.args) == 1]
    begin_var = None
    for c in lp.sub['carried']:
        v = b.env.get(c)
        if v is not None and lin(v) == {K: 1, 'len(%s)' % V: 1}:
            begin_var = c
    if begin_var is None:
        ctx.violation(rule, tob, 'loop body: %s' % '; '.join(e.text() for e in b.effects), 'no variable is advanced to offset + len(chunk) after each chunk', lp.lineno, clause='5')
        return
    B = '%s@phi%d' % (begin_var, n)
    ok = True
    if len(apps) != 2 or canon(apps[0].call.func.value) != canon(apps[1].call.func.value):
        ctx.violation(rule, tob, 'loop body: %s' % '; '.join(e.text() for e in b.effects), 'expected two appends per chunk (fill, then chunk)', lp.lineno, clause='5')
        return
    gap, chunk = apps[0].call.args[0], apps[1].call.args[0]
    good_gap = False
    if isinstance(gap, ast.BinOp) and isinstance(gap.op, ast.Mult):
        for f, m in ((gap.left, gap.right), (gap.right, gap.left)):
            if canon(f) == 'self.fill' and lin(m) == {K: 1, B: -1}:
                good_gap = True
    if not good_gap:
        ok = ctx.violation(rule, tob, apps[0].text(), 'the hole before a chunk is not rendered as fill * (offset - begin)', apps[0].lineno, clause='5')
    if canon(chunk) != V:
        ok = ctx.violation(rule, tob, apps[1].text(), 'the chunk appended is not the stored chunk', apps[1].lineno, clause='5')
    # initial value of begin
    init_v = None
    for s in tob.node.body:
        if isinstance(s, ast.Assign) and isinstance(s.targets[0], ast.Name) and s.targets[0].id == begin_var:
            init_v = s.value
            break
    if not (isinstance(init_v, ast.Constant) and init_v.value == 0):
        ok = ctx.violation(rule, tob, '%s starts at %s' % (begin_var, canon(init_v) if init_v is not None else '?'), 'the walk does not start at position 0', tob.node.lineno, clause='5')
    acc = canon(apps[0].call.func.value)
    ret = p.ret()
    if ret is None or not (isinstance(ret, ast.Call) and isinstance(ret.func, ast.Attribute) and ret.func.attr == 'join' and len(ret.args) == 1
                           and canon(ret.args[0]) + 'out' == acc.replace('@phi%d' % n, '@phi%dout' % n) + ('' if '@phi' in acc else 'out')):
        # accept join of the accumulator list (it is not loop-carried as a name: append mutates it)
        if not (ret is not None and isinstance(ret, ast.Call) and isinstance(ret.func, ast.Attribute) and ret.func.attr == 'join'
                and isinstance(ret.func.value, ast.Constant) and ret.func.value.value == b'' and len(ret.args) == 1 and canon(ret.args[0]) == acc):
            ok = ctx.violation(rule, tob, 'return %s' % (canon(ret) if ret is not None else None), "the result is not b''.join(parts) of the parts in walk order", tob.node.lineno, clause='5')
    if ok:
        ctx.holds(rule, tob, 'per chunk: %s; %s; %s := %s' % (apps[0].text(), apps[1].text(), begin_var, canon(b.env[begin_var])),
                  'fill*(offset-begin), chunk, begin := offset+len(chunk), joined in order from 0', lp.lineno, clause='5')
