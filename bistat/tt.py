"""Finite decision tables over integer comparisons ("values touched only through comparisons").

A function whose behaviour depends on its integer inputs only through comparisons of a few
*quantities* (``position - end_of_previous``, ``slot - len(begins)``, ...) with constants has
finitely many behaviours: one per choice, for every quantity, of the interval between two
consecutive thresholds it lies in.  ``Table`` collects the thresholds the code under analysis
and the property mention, enumerates every combination that is consistent with a stated
background theory, evaluates the guards of each path summary under it (short-circuit order;
a quantity that is undefined in the situation -- an index that does not exist -- makes the
evaluation crash) and tells which path is taken.  A rule then compares the outcome of that
path with what the property requires in that situation.

The comparison is exhaustive over the abstraction and independent of how the source arranges
the tests (nested ifs, guard clauses, one combined condition, named booleans, helpers); an
off-by-one (``<=`` for ``<``) is a different threshold on the same quantity and shows up as
the situation in which the two differ.  Nothing is executed and no solver is involved:
literals are matched by their linear normal form over the integers, the rest is propositional.
"""
import ast
import bisect
import itertools

from . import Undecided
from .expr import canon, cmp_form


class Crash(Exception):
    """evaluation touches a quantity that is undefined in the situation"""


def _key(form):
    """(key, sign, const): form == sign * quantity + const, the quantity's first coefficient > 0"""
    items = sorted(((str(k), k, v) for k, v in form.items() if v != 0 and k != 1), key=lambda t: t[0])
    if not items:
        return None, 1, form.get(1, 0)
    sign = 1 if items[0][2] > 0 else -1
    key = tuple((t[1], t[2] * sign) for t in items)
    return key, sign, form.get(1, 0)


class Table:
    def __init__(self):
        self.names = []
        self.by_key = {}        # quantity key -> name
        self.thresholds = {}    # name -> sorted list of ints
        self.texts = {}         # canonical text of a truth test -> (name, threshold, polarity of  q < t)
        self.defined = {}       # name -> predicate(situation)

    def quantity(self, name, form, defined=None, thresholds=(0,)):
        key, sign, const = _key(form)
        if key is None or const != 0:
            raise ValueError('declare a quantity by a linear form without constant')
        if name not in self.thresholds:
            self.names.append(name)
            self.thresholds[name] = []
        self.by_key[key] = (name, sign)
        for t in thresholds:
            self.threshold(name, t)
        if defined is not None:
            self.defined[name] = defined

    def threshold(self, name, t):
        ts = self.thresholds[name]
        if t not in ts:
            bisect.insort(ts, t)

    def truthy(self, text, name, t=1):
        """``text`` used as a condition is true iff not (quantity < t)  (e.g. a container: len >= 1)"""
        self.texts[text] = (name, t, False)
        self.threshold(name, t)

    # ------------------------------------------------------------------ literals
    def _strict(self, form):
        """form < 0  ->  (name, t, pol) meaning  pol == (q < t)"""
        key, sign, const = _key(form)
        if key is None or key not in self.by_key:
            return None
        n, declared = self.by_key[key]
        if sign * declared == 1:
            return (n, -const, True)          # q + c < 0   <=>  q < -c
        return (n, const + 1, False)          # -q + c < 0  <=>  q > c  <=>  not (q < c + 1)

    def literal(self, e):
        t = canon(e)
        if t in self.texts:
            return ('lit',) + self.texts[t]
        f = cmp_form(e)
        if f is None:
            return None
        form, op = f
        if not any(k != 1 and v != 0 for k, v in form.items()):
            c = form.get(1, 0)
            return ('const', {'<': c < 0, '<=': c <= 0, '==': c == 0, '!=': c != 0}[op])
        neg = {k: -v for k, v in form.items()}
        def shifted(fm, d):
            g = dict(fm)
            g[1] = g.get(1, 0) + d
            return g
        if op == '<':
            a = self._strict(form)
            return ('lit',) + a if a else None
        if op == '<=':
            a = self._strict(shifted(form, -1))
            return ('lit',) + a if a else None
        a, b = self._strict(form), self._strict(neg)
        if a is None or b is None:
            return None
        if op == '==':
            return ('and', [('lit', a[0], a[1], not a[2]), ('lit', b[0], b[1], not b[2])])
        return ('or', [('lit',) + a, ('lit',) + b])

    def _leaves(self, e):
        if isinstance(e, ast.UnaryOp) and isinstance(e.op, ast.Not):
            yield from self._leaves(e.operand)
        elif isinstance(e, ast.BoolOp):
            for v in e.values:
                yield from self._leaves(v)
        elif isinstance(e, ast.IfExp):
            for v in (e.test, e.body, e.orelse):
                yield from self._leaves(v)
        elif isinstance(e, ast.Compare) and len(e.ops) > 1:
            left = e.left
            for op, right in zip(e.ops, e.comparators):
                yield ast.Compare(left=left, ops=[op], comparators=[right])
                left = right
        else:
            yield e

    def scan(self, paths):
        """collect the thresholds the guards of the paths compare the quantities with"""
        def visit(f):
            if f is None or f[0] == 'const':
                return
            if f[0] == 'lit':
                self.threshold(f[1], f[2])
            else:
                for x in f[1]:
                    visit(x)
        for p in paths:
            for g, _ in p.guards:
                for leaf in self._leaves(g):
                    if not isinstance(leaf, ast.Constant):
                        visit(self.literal(leaf))

    # ------------------------------------------------------------------ situations
    def situations(self, consistent):
        spaces = [range(len(self.thresholds[n]) + 1) for n in self.names]
        for regions in itertools.product(*spaces):
            s = Situation(self, dict(zip(self.names, regions)))
            if any((n in self.defined and not self.defined[n](s) and s.region[n] != 0) for n in self.names):
                continue            # undefined quantities are listed once (pinned)
            if consistent(s):
                yield s

    # ------------------------------------------------------------------ evaluation
    def value(self, f, s):
        if f[0] == 'const':
            return f[1]
        if f[0] == 'lit':
            _, n, t, pol = f
            d = self.defined.get(n)
            if d is not None and not d(s):
                raise Crash(n)
            return s.lt(n, t) == pol
        if f[0] == 'and':
            return all(self.value(x, s) for x in f[1])
        return any(self.value(x, s) for x in f[1])

    def eval(self, e, s):
        if isinstance(e, ast.Constant):
            return bool(e.value)
        if isinstance(e, ast.UnaryOp) and isinstance(e.op, ast.Not):
            return not self.eval(e.operand, s)
        if isinstance(e, ast.BoolOp):
            if isinstance(e.op, ast.And):
                for v in e.values:
                    if not self.eval(v, s):
                        return False
                return True
            for v in e.values:
                if self.eval(v, s):
                    return True
            return False
        if isinstance(e, ast.IfExp):
            return self.eval(e.body if self.eval(e.test, s) else e.orelse, s)
        if isinstance(e, ast.Compare) and len(e.ops) > 1:
            left = e.left
            for op, right in zip(e.ops, e.comparators):
                if not self.eval(ast.Compare(left=left, ops=[op], comparators=[right]), s):
                    return False
                left = right
            return True
        f = self.literal(e)
        if f is None:
            raise Undecided('condition %s is not a comparison the decision table knows' % canon(e)[:160])
        return self.value(f, s)

    def taken(self, paths, s):
        """-> [(path, outcome)] for the paths whose guards all hold in the situation; outcome
        'crash' when a guard touches an undefined quantity before any guard failed"""
        out = []
        for p in paths:
            ok, crashed = True, False
            for g, pol in p.guards:
                try:
                    v = self.eval(g, s)
                except Crash:
                    crashed = True
                    break
                if v != pol:
                    ok = False
                    break
            if crashed:
                out.append((p, 'crash'))
            elif ok:
                out.append((p, 'raise' if p.raises() else 'return'))
        return out


class Situation:
    def __init__(self, table, region):
        self.table, self.region = table, region

    def lt(self, name, t):
        """quantity < t  (t must be one of the thresholds of the quantity)"""
        ts = self.table.thresholds[name]
        j = ts.index(t)
        return self.region[name] <= j

    def ge(self, name, t):
        return not self.lt(name, t)

    def show(self):
        parts = []
        for n in self.table.names:
            d = self.table.defined.get(n)
            if d is not None and not d(self):
                continue
            ts, k = self.table.thresholds[n], self.region[n]
            if k == 0:
                parts.append('%s < %d' % (n, ts[0]))
            elif k == len(ts):
                parts.append('%s >= %d' % (n, ts[-1]))
            elif ts[k] - ts[k - 1] == 1:
                parts.append('%s == %d' % (n, ts[k - 1]))
            else:
                parts.append('%d <= %s < %d' % (ts[k - 1], n, ts[k]))
        return ', '.join(parts)
