import argparse
import importlib
import os
import sys
import time
import traceback

from . import Undecided
from .frontend import Repo
from .report import Ctx, finish

PROPS = ['C%02d' % i for i in range(1, 21)]


def run_property(prop, tier, seed, replay=None, root=None, write=True, out=sys.stdout):
    t0 = time.time()
    try:
        mod = importlib.import_module('bistat.rules.%s' % prop.lower())
    except ImportError as e:
        print('ANALYSIS-ERROR property=%s no checker module: %s' % (prop, e), file=out)
        return 2
    ctx = None
    try:
        repo = Repo(root)
        ctx = Ctx(prop, repo, tier, seed)
        mod.check(ctx)
        if tier == 'thorough' and hasattr(mod, 'thorough'):
            mod.thorough(ctx)
    except Undecided as e:
        print('ANALYSIS-ERROR property=%s %s' % (prop, e), file=out)
        # an analysis that could not be completed has no "holds" verdict; what it had already
        # established as a violation (a named construct) stands
        # (a named construct: a witnessed report) stands; "not what the rule expects" reports of an
        # analysis that did not finish are no evidence
        from .report import VIOLATION, UNDECIDED
        if ctx is None or not any(o.verdict == VIOLATION and o.witness for o in ctx.obs):
            return 2
        for o in ctx.obs:
            if o.verdict == VIOLATION and not o.witness:
                o.verdict = UNDECIDED
                o.reason = 'no verdict: the analysis stopped early [%s]' % o.reason
        ctx.undecided('analysis-incomplete', ('bisturi', '<analysis>'), 'the analysis stopped early', str(e), 0)
    except Exception:
        print('ANALYSIS-ERROR property=%s internal error in the checker:' % prop, file=out)
        traceback.print_exc(file=out)
        return 2
    if replay:
        from .replay import show
        return show(ctx, replay, out)
    return finish(ctx, time.time() - t0, mod.EXPLANATION, mod.LEVEL_RULE, mod.ASSUMPTIONS, out=out, write=write)


def main(argv=None):
    ap = argparse.ArgumentParser(prog='check')
    ap.add_argument('prop')
    ap.add_argument('--tier', default=os.environ.get('VERIF_TIER') or 'quick', choices=['quick', 'thorough'])
    ap.add_argument('--replay')
    ap.add_argument('--root', default=None, help='analyse this checkout instead of /repo (self-test only)')
    ap.add_argument('--no-evidence', action='store_true')
    a = ap.parse_args(argv)
    try:
        seed = int(os.environ.get('VERIF_SEED') or 0)
    except ValueError:
        seed = 0
    props = PROPS if a.prop.lower() == 'all' else [a.prop.upper()]
    worst = 0
    for p in props:
        code = run_property(p, a.tier, seed, a.replay, a.root, write=not a.no_evidence)
        if a.tier == 'thorough' and code == 0 and not a.replay and a.root is None:
            from .selftest import run_selftest
            code = run_selftest(p, seed)
        worst = max(worst, code) if code != 1 else 1 if worst != 1 else 1
        if code == 1:
            worst = 1
    sys.stdout.flush()
    return worst


if __name__ == '__main__':
    try:
        rc = main()
    except SystemExit:
        raise
    except Exception:
        print('ANALYSIS-ERROR internal error:')
        traceback.print_exc(file=sys.stdout)
        rc = 2
    sys.exit(rc)
