#!/usr/bin/env python3
"""Fast regression over the independently produced changes (static only, nothing is executed).

usage: regress.py [benign|seeded|all] [-v] [name-prefix ...]

For every /verif/benign/<name>/patch.diff (behaviour-preserving: every check must exit 0) and
every /verif/seeded/<name>/patch.diff (property-breaking: the check of the own property must
exit 1), the patch is applied to a scratch copy of /repo/bisturi under a temporary directory
and the 20 checks run in-process against it.  The tests and the demonstration/digest were run
when the change was admitted (tools/eval_seeded.py, tools/eval_benign.py); this tool only
re-runs the static checks, in parallel.
"""
import io
import json
import multiprocessing
import os
import shutil
import subprocess
import sys
import tempfile

VERIF = os.path.dirname(os.path.dirname(os.path.abspath(__file__)))
sys.path.insert(0, VERIF)
PROPS = ['C%02d' % i for i in range(1, 21)]


def work(job):
    kind, name = job
    from bistat.__main__ import run_property
    d = os.path.join(VERIF, kind, name)
    tmp = tempfile.mkdtemp(prefix='rg.')
    try:
        shutil.copytree('/repo/bisturi', os.path.join(tmp, 'bisturi'), ignore=shutil.ignore_patterns('__pycache__', '__pkts__'))
        p = subprocess.run(['git', 'apply', '--whitespace=nowarn', '--include=bisturi/*', os.path.join(d, 'patch.diff')], cwd=tmp,
                           stdout=subprocess.PIPE, stderr=subprocess.STDOUT)
        if p.returncode:
            return kind, name, None, None, {'apply': p.stdout.decode()[:300]}
        fired, und, det = [], [], {}
        for prop in PROPS:
            buf = io.StringIO()
            try:
                code = run_property(prop, 'quick', 0, root=tmp, write=False, out=buf)
            except Exception as e:        # internal error of the checker
                code = 2
                buf.write('ANALYSIS-ERROR internal %r' % e)
            if code == 1:
                fired.append(prop)
            elif code:
                und.append(prop)
            if code:
                det[prop] = [l.strip() for l in buf.getvalue().splitlines()
                             if 'VIOLATED' in l or 'construct:' in l or 'reason:' in l or 'ANALYSIS-ERROR' in l or 'UNDECIDED' in l][:12]
        return kind, name, fired, und, det
    finally:
        shutil.rmtree(tmp, ignore_errors=True)


def main():
    a = [x for x in sys.argv[1:] if x not in ('-v', '--update-meta')]
    verbose = '-v' in sys.argv
    update = '--update-meta' in sys.argv
    which = a[0] if a and a[0] in ('benign', 'seeded', 'all') else 'all'
    prefixes = [x for x in a if x not in ('benign', 'seeded', 'all')]
    jobs = []
    for kind in ('benign', 'seeded'):
        if which in (kind, 'all'):
            for name in sorted(os.listdir(os.path.join(VERIF, kind))):
                if os.path.exists(os.path.join(VERIF, kind, name, 'patch.diff')) and (not prefixes or any(name.startswith(p) or (p.startswith("~") and p[1:] in name) for p in prefixes)):
                    jobs.append((kind, name))
    with multiprocessing.Pool(16) as pool:
        results = pool.map(work, jobs, chunksize=1)
    bad = 0
    stats = {'benign': [0, 0, 0, 0], 'seeded': [0, 0, 0, 0]}
    for kind, name, fired, und, det in results:
        meta = json.load(open(os.path.join(VERIF, kind, name, 'meta.json')))
        prop = meta['property']
        if fired is None:
            print('%-7s %-12s PATCH DOES NOT APPLY %s' % (kind, name, det)); bad += 1
            continue
        st = stats[kind]
        st[0] += 1
        if update:
            mp = os.path.join(VERIF, kind, name, 'meta.json')
            if kind == 'benign':
                meta['false_alarms'], meta['undecided'] = fired, und
                meta['details'] = det
            else:
                meta['checks_fired'], meta['checks_undecided'] = fired, und
                meta['caught_by_own_property'] = prop in fired
                meta['violations_reported'] = [l for l in det.get(prop, []) if 'VIOLATED' in l or 'reason:' in l][:6]
            with open(mp, 'w') as f:
                json.dump(meta, f, indent=1)
        if kind == 'benign':
            ok = not fired and not und
            st[1] += bool(fired); st[2] += bool(und and not fired); st[3] += ok
            if not ok:
                bad += 1
                print('benign  %-10s FALSE-ALARM=%s undecided=%s' % (name, fired, und))
        else:
            own = prop in fired
            st[1] += own; st[2] += bool(fired and not own); st[3] += (not fired)
            if not own:
                bad += 1
                print('seeded  %-10s own property %s NOT fired; fired=%s undecided=%s' % (name, prop, fired, und))
        if verbose and det:
            for p, lines in det.items():
                if kind == 'benign' or p == prop:
                    print('     ', p)
                    for l in lines:
                        print('         ', l[:400])
    b, s = stats['benign'], stats['seeded']
    if b[0]:
        print('benign: %d changes, %d with a false alarm, %d only undecided, %d silent' % tuple(b))
    if s[0]:
        print('seeded: %d changes, %d caught by own property, %d only by another, %d by none' % tuple(s))
    return 1 if bad else 0


if __name__ == '__main__':
    sys.exit(main())
