"""C14 -- parsing depends only on the bytes it consumes.

Rule family R14 (context independence) over every function that can sit behind
``.unpack`` of a field class, the generic and generated unpack drivers and Packet.unpack:

 (a) the input buffer ``raw`` is used only
       - as a slice raw[lo:hi] whose lower bound is the cursor (linear form
         offset + non-negative constant),
       - as len(raw) under the end-of-string guard (read-to-end, excluded by the statement),
       - or passed on unchanged to a child / callback *together with* the cursor;
     raw[const], raw[:x], raw[-n:], raw.find(...) / regex.search(raw, ...) on the whole
     buffer are violations: bytes before the cursor (or absolute positions) influence the
     result;
 (b) regex delimiters are searched in a buffer cut at the cursor, from position 0
     (anchors and look-behind cannot see the prefix);
 (d) every child unpack receives the current cursor (offset, or offset + per-element
     pad); a constant or foreign cursor is a violation;
 (e) the drivers record the entry offset as k['innermost-pkt-pos'] (shared with C10) so
     relative positioning shifts with the start offset.
Absolute constructs -- Move with reference 'begins', per-element ``aligned=`` of
sequences -- are listed in the evidence, not flagged: the statement excludes them.
User callbacks that inspect ``raw`` are excluded by the statement.

Round 4: whole-buffer re.* scans; the loop-block generators (and the helpers that fill their
holes) do not special-case field kinds; a cursor assignment made of generated text is no verdict.

Round 5: (g) util.SeekableFile answers raw[a:b] from the file at its own position, or from a
remembered block only under a guard on the end of the request; the driver-hole rule of C03-a'.

Round 6: the whole input handed to a buffer-protocol consumer (unpack_from, memoryview); a
cursor returned by the previous child is the current cursor.
Round 7: a strategy installed only for the end-of-string marker may use len(raw).
Round 8: includes the modifier defaults of C10, the strict-decode rule of C04 on every unpack
strategy and the Int codec rule of C05.
"""
import ast

from .. import Undecided
from ..expr import canon, lin, call_name, unparse, const_num
from ..model import struct_object_attrs, unpack_strategies, stmt_text
from .. import drivers as D

EXPLANATION = __doc__
LEVEL_RULE = 'one obligation per occurrence of the input buffer and per child-unpack call in run-time unpack code'
ASSUMPTIONS = [
    'a slice raw[lo:hi] with lo at the cursor cannot observe bytes before the cursor',
    'bytes.find / re search return the first occurrence, so bytes after the match do not matter (C06)',
]


def parents_of(root):
    par = {}
    for p in ast.walk(root):
        for c in ast.iter_child_nodes(p):
            par[id(c)] = p
    return par


def single_defs(func):
    """locals assigned exactly once from an expression (for resolving slice bounds)"""
    count, val = {}, {}
    for n in ast.walk(func):
        if isinstance(n, ast.Assign) and len(n.targets) == 1 and isinstance(n.targets[0], ast.Name):
            count[n.targets[0].id] = count.get(n.targets[0].id, 0) + 1
            val[n.targets[0].id] = n.value
        elif isinstance(n, (ast.AugAssign,)) and isinstance(n.target, ast.Name):
            count[n.target.id] = count.get(n.target.id, 0) + 2
        elif isinstance(n, (ast.For,)):
            for x in ast.walk(n.target):
                if isinstance(x, ast.Name):
                    count[x.id] = count.get(x.id, 0) + 2
    return {k: v for k, v in val.items() if count.get(k) == 1}


def cursor_form(e, defs, depth=0):
    """linear form of a bound with single-definition locals substituted"""
    from ..expr import subst
    for _ in range(4):
        names = {n.id for n in ast.walk(e) if isinstance(n, ast.Name)}
        m = {k: v for k, v in defs.items() if k in names and k not in ('offset', 'raw')}
        if not m:
            break
        e = subst(e, m)
    return lin(e), e


def check_function(ctx, where, node, label, is_template=False):
    rule = 'R14-raw-relative-to-cursor'
    par = parents_of(node)
    defs = single_defs(node)
    n_uses = 0
    for n in ast.walk(node):
        if not (isinstance(n, ast.Name) and n.id == 'raw' and isinstance(n.ctx, ast.Load)):
            continue
        p = par.get(id(n))
        n_uses += 1
        st = '%s: %s' % (label, stmt_text(p)[:140])
        line = getattr(n, 'lineno', 0)
        # ---- slice
        if isinstance(p, ast.Subscript) and p.value is n:
            sl = p.slice
            if not isinstance(sl, ast.Slice):
                ctx.violation(rule, where, st, 'the input is indexed at a position that is not relative to the cursor', line, clause='a')
                continue
            if sl.lower is None:
                ctx.violation(rule, where, st, 'the slice starts at the beginning of the input, not at the cursor: bytes before the cursor influence the result', line, clause='a')
                continue
            form, ex = cursor_form(sl.lower, defs)
            rest = {k: v for k, v in form.items() if k != 'offset'}
            if form.get('offset') != 1:
                ctx.violation(rule, where, st, 'the lower bound %s is not the cursor' % canon(sl.lower), line, clause='a')
            elif any(k != 1 for k in rest) or any(v < 0 for v in rest.values()):
                ctx.violation(rule, where, st, 'the lower bound %s is not cursor + non-negative constant' % canon(ex), line, clause='a')
            else:
                ctx.holds(rule, where, st, 'slice anchored at the cursor', line, clause='a')
            continue
        # ---- len(raw)
        if isinstance(p, ast.Call) and isinstance(p.func, ast.Name) and p.func.id == 'len' and p.args and p.args[0] is n:
            guard = enclosing_tests(par, p)
            from .c04 import _only_for_eos_marker, expand_test_consts as _exp
            if hasattr(where, 'qual') and _only_for_eos_marker(ctx.repo, where):
                ctx.holds(rule, where, st, 'the strategy is installed only for the end-of-string marker (read-to-end field)', line, clause='a')
            elif any("b'$'" in g and 'pattern' in g for g in (_exp(ctx.repo, where, guard) if hasattr(where, 'qual') else guard)):
                ctx.holds(rule, where, st, 'len(raw) only under the end-of-string marker guard (read-to-end field)', line, clause='a')
            elif in_rejecting_test(par, p):
                ctx.holds(rule, where, st, 'bounds check: len(raw) only decides whether to raise', line, clause='a')
            else:
                ctx.violation(rule, where, st, 'the total length of the input is used outside the end-of-string shortcut: appended bytes change the result', line, clause='a')
            continue
        # ---- passed on
        if isinstance(p, ast.keyword) or isinstance(p, ast.Call):
            call = p if isinstance(p, ast.Call) else par.get(id(p))
            if isinstance(call, ast.Call):
                f = call.func
                # searching the whole buffer
                if isinstance(f, ast.Attribute) and f.attr in ('search', 'match', 'fullmatch', 'finditer', 'findall') and call.args and call.args[0] is n:
                    ctx.violation('R14-regex-on-cut-buffer', where, st, 'the regex runs on the whole input (with a start position): anchors and look-behind see the bytes before the cursor', line, clause='b')
                    continue
                if (call_name(call) or '') in ('re.search', 're.match', 're.fullmatch', 're.finditer', 're.findall', 're.split', 're.sub') and len(call.args) >= 2 and call.args[1] is n:
                    ctx.violation('R14-regex-on-cut-buffer', where, st, 'the whole input is scanned from its first byte: which matches are found at and after the cursor depends on the bytes before it (matches do not overlap)', line, clause='b')
                    continue
                if isinstance(f, ast.Name) and f.id in ('isinstance', 'type', 'repr', 'id') and isinstance(p, ast.Call):
                    ctx.holds(rule, where, st, 'type inspection only', line, clause='a')
                    continue
                cn = call_name(call) or ''
                if (isinstance(f, ast.Attribute) and f.attr in ('unpack_from', 'iter_unpack')) or cn in ('memoryview', 'bytes', 'bytearray', 'int.from_bytes', 'struct.unpack_from', 'struct.iter_unpack', 'io.BytesIO', 'BytesIO'):
                    ctx.violation(rule, where, st, 'the whole input object is handed to %s, which reads it through the buffer protocol, not through slicing: the documented file-backed input (util.SeekableFile, a bytes subclass that serves slices from the file) is empty at that level, so unpack(file, offset) fails or differs from unpack(file[offset:])' % (cn or f.attr), line, clause='a', witness=True)
                    continue
                has_offset = any(k.arg == 'offset' for k in call.keywords) or any(isinstance(a, ast.Name) and a.id == 'offset' for a in call.args) \
                    or any(k.arg is None for k in call.keywords)
                if isinstance(p, ast.keyword) and p.arg not in ('raw',):
                    ctx.violation(rule, where, st, 'the input buffer is passed as %s=' % p.arg, line, clause='a')
                elif has_offset:
                    ctx.holds(rule, where, st, 'passed on unchanged together with the cursor', line, clause='a')
                else:
                    ctx.undecided(rule, where, st, 'the input buffer is passed to a call without the cursor', line, clause='a')
                continue
        # ---- method on raw
        if isinstance(p, ast.Attribute) and p.value is n:
            call = par.get(id(p))
            if isinstance(call, ast.Call) and p.attr in ('find', 'index', 'rfind', 'rindex', 'count', 'startswith', 'endswith', 'split', 'partition'):
                start = call.args[1] if len(call.args) > 1 else None
                if p.attr in ('find', 'index') and start is not None and lin(start).get('offset') == 1 and all(k in ('offset', 1) for k in lin(start)):
                    ctx.holds(rule, where, st, 'search starts at the cursor', line, clause='a')
                else:
                    ctx.violation(rule, where, st, 'raw.%s(...) looks at the input from its beginning / end, not from the cursor' % p.attr, line, clause='a')
                continue
        if isinstance(p, ast.Assign) and p.value is n:
            ctx.undecided(rule, where, st, 'the input buffer is aliased', line, clause='a')
            continue
        ctx.undecided(rule, where, st, 'use of the input buffer not recognised (%s)' % type(p).__name__, line, clause='a')
    return n_uses


def in_rejecting_test(par, node):
    """node sits in the test of an ``if`` whose body only raises, or in an assert"""
    cur = node
    while id(cur) in par:
        p = par[id(cur)]
        if isinstance(p, ast.Assert) and cur is p.test:
            return True
        if isinstance(p, ast.If) and cur is p.test:
            return all(isinstance(s, ast.Raise) for s in p.body) and not p.orelse
        if isinstance(p, ast.stmt):
            return False
        cur = p
    return False


def enclosing_tests(par, node):
    out = []
    cur = node
    while id(cur) in par:
        p = par[id(cur)]
        if isinstance(p, ast.If):
            out.append(canon(p.test))
        cur = p
    return out


def check_child_cursors(ctx, where, node, label, ci=None):
    """(d) calls of unpack / unpack_impl receive the current cursor"""
    rule = 'R14-child-gets-cursor'
    repo = ctx.repo
    n = 0
    w = repo.walker(max_paths=ctx.max_paths)
    if not isinstance(node, ast.FunctionDef):
        return 0
    seen = set()
    for p in w.paths(node, cls=ci):
        for e in p.all_effects():
            if e.kind != 'call':
                continue
            f = e.call.func
            name = f.attr if isinstance(f, ast.Attribute) else f.id if isinstance(f, ast.Name) else None
            tail = canon(f)
            is_child = name in ('unpack', 'unpack_impl') or tail.endswith('.unpack') or tail in ('unpack',)
            if not is_child:
                continue
            if isinstance(f, ast.Attribute) and (canon(f.value) == 'struct' or (isinstance(f.value, ast.Attribute) and f.value.attr in struct_object_attrs(repo))):
                continue           # struct.Struct.unpack: the standard codec, not a child field
            if id(e.node) in seen:
                continue
            seen.add(id(e.node))
            n += 1
            st = '%s: %s' % (label, stmt_text(e.node)[:140])
            kw = {k.arg: k.value for k in e.call.keywords}
            pos = list(e.call.args)
            off = kw.get('offset')
            if off is None:
                # positional (pkt, raw, offset) or (raw, offset)
                for i, a in enumerate(pos):
                    if isinstance(a, ast.Name) and a.id == 'raw' and i + 1 < len(pos):
                        off = pos[i + 1]
            if off is None:
                if None in kw:
                    ctx.holds(rule, where, st, 'cursor travels inside **k unchanged', e.lineno, clause='d')
                else:
                    ctx.undecided(rule, where, st, 'cannot find the cursor argument', e.lineno, clause='d')
                continue
            if isinstance(off, ast.Call):
                f2 = off.func
                n2 = f2.attr if isinstance(f2, ast.Attribute) else f2.id if isinstance(f2, ast.Name) else None
                if n2 in ('unpack', 'unpack_impl') and not (isinstance(f2, ast.Attribute) and (canon(f2.value) == 'struct' or (isinstance(f2.value, ast.Attribute) and f2.value.attr in struct_object_attrs(repo)))):
                    ctx.holds(rule, where, st, 'child parsed at the cursor the previous child returned', e.lineno, clause='d')
                    continue
            form = lin(off)
            cur = [k for k in form if k != 1 and (k == 'offset' or str(k).startswith('offset@phi'))]
            rest = {k: v for k, v in form.items() if k not in cur}
            if len(cur) != 1 or form[cur[0]] != 1:
                ctx.violation(rule, where, st, 'the child is parsed at %s, which is not the current cursor' % canon(off), e.lineno, clause='d')
            elif rest and not all(('%' in str(k) and 'aligned_to' in str(k)) for k in rest):
                ctx.violation(rule, where, st, 'the child is parsed at cursor + %s' % sorted(map(str, rest)), e.lineno, clause='d')
            else:
                if rest:
                    ctx.note('%s: per-element alignment is absolute (excluded by the statement)' % label)
                ctx.holds(rule, where, st, 'child parsed at the current cursor%s' % (' (+ per-element pad)' if rest else ''), e.lineno, clause='d')
    return n


def check_file_backed_raw(ctx, rule='R14-file-backed-slice'):
    """Round 5.  (g) the file-backed stand-in for bytes (util.SeekableFile) answers raw[a:b] with
    exactly the bytes a..b of the file, whatever was read before: either a seek to a and a read of
    b - a, or bytes served from a remembered block under a guard that relates the END of the request
    to the block.  A block chosen by the start alone truncates a request that crosses its end, so
    the same packet parses differently depending on where it lies in the file"""
    repo = ctx.repo
    if not repo.has_cls('SeekableFile'):
        return
    ci = repo.cls('SeekableFile')
    fi = ci.methods.get('_slice') or ci.methods.get('__getitem__')
    if fi is None:
        ctx.undecided(rule, (ci.file, 'SeekableFile'), 'SeekableFile', 'no _slice / __getitem__ found', ci.node.lineno, clause='g')
        return
    w = repo.walker(inline_depth=2, max_paths=ctx.max_paths)
    n = 0
    paths = w.paths(fi.node, cls=ci)
    X = None
    for p in paths:
        for e in p.calls():
            if isinstance(e.call.func, ast.Attribute) and e.call.func.attr == 'indices':
                X = canon(e.call)
    if X is None:
        ctx.undecided(rule, fi, 'SeekableFile._slice', 'the request is not normalised with slice.indices(length)', fi.node.lineno, clause='g')
        return
    START, STOP, STEP = X + '[0]', X + '[1]', X + '[2]'
    for p in paths:
        if p.raises():
            continue
        r = p.ret()
        if r is None:
            continue
        gt = p.guard_texts()
        if not any(STEP in g and '== 0' in g and not g.startswith('not') for g in gt):
            continue               # the strided path: built from single-byte reads
        n += 1
        label = 'contiguous slice, path [%s]' % '; '.join(g.replace(X, 'S') for g in gt)[:140]
        short_r = canon(r).replace(X, 'S')[:90]
        reads = [e for e in p.calls() if isinstance(e.call.func, ast.Attribute) and e.call.func.attr == 'read']
        seeks = [e for e in p.calls() if isinstance(e.call.func, ast.Attribute) and e.call.func.attr in ('_seek', 'seek')]
        stores = [e for e in p.all_effects() if e.kind == 'store_attr' and canon(e.obj) == 'self']
        from_attr = isinstance(r, ast.Subscript) and isinstance(r.value, ast.Attribute) and canon(r.value.value) == 'self'
        if not from_attr and not stores and len(reads) == 1 and len(seeks) >= 1 and canon(r) == canon(reads[0].call) and len(reads[0].call.args) == 1:
            if canon(seeks[-1].call.args[0]) == START and lin(reads[0].call.args[0]) == {STOP: 1, START: -1}:
                ctx.holds(rule, fi, label + ' -> seek(start); read(stop - start)', 'every slice is read from the file at its own position', fi.node.lineno, clause='g')
            else:
                ctx.violation(rule, fi, label + ' -> seek(%s); %s' % (canon(seeks[-1].call.args[0]).replace(X, 'S'), short_r), 'the bytes read are not the bytes start..stop of the file', fi.node.lineno, clause='g')
            continue
        if from_attr:
            blk = r.value.attr
            fills = [e for e in stores if e.name == blk]
            whole = [e for e in ast.walk(ci.node) if isinstance(e, ast.Assign) and any(isinstance(t, ast.Attribute) and t.attr == blk for t in e.targets)]
            all_whole = whole and all(isinstance(e.value, ast.Call) and isinstance(e.value.func, ast.Attribute) and e.value.func.attr == 'read' and not e.value.args for e in whole)
            if all_whole:
                ctx.holds(rule, fi, label + ' -> %s' % short_r, 'served from the whole file content', fi.node.lineno, clause='g')
                continue
            guards_on_end = [g for g in gt if ('self.%s' % blk) in g and STOP in g]
            if not fills and not guards_on_end:
                ctx.violation(rule, fi, label + ' -> %s' % short_r, 'the bytes come from the remembered block self.%s, chosen by where the request starts; nothing on this path compares the end of the request with the end of the block, so a request that crosses it is silently cut short' % blk, fi.node.lineno, clause='g', witness=True)
            else:
                ctx.undecided(rule, fi, label + ' -> %s' % short_r, 'bytes served from a remembered block: its bookkeeping is not analysed', fi.node.lineno, clause='g')
            continue
        # a buffer sized to the request, filled by readinto() whose count is thrown away
        into = [e for e in p.effects if e.kind == 'call' and isinstance(e.call.func, ast.Attribute) and e.call.func.attr == 'readinto']
        presized = any(isinstance(x, ast.Call) and isinstance(x.func, ast.Name) and x.func.id == 'bytearray' and x.args and not isinstance(x.args[0], (ast.Constant, ast.List, ast.Tuple)) for x in ast.walk(r))
        if into and presized and not any(canon(e.call) in canon(r) for e in into):
            ctx.violation(rule, fi, label + ' -> %s' % short_r, 'the slice is a buffer of the requested length filled by readinto() whose count is ignored: past the end of the file it is padded with zero bytes, so a truncated file parses (with made-up values) instead of failing', fi.node.lineno, clause='g', witness=True)
            continue
        ctx.undecided(rule, fi, label + ' -> %s' % short_r, 'not the seek-then-read form', fi.node.lineno, clause='g')
    if not n:
        ctx.undecided(rule, fi, 'SeekableFile._slice', 'no contiguous-slice path recognised', fi.node.lineno, clause='g')


def _hi(p, fi):
    return 'stop'


def check(ctx):
    repo = ctx.repo
    # Round 8: at() / shift() / aligned() keep their documented reference points (a position relative to
    # the innermost packet does not depend on what stands before the packet): C10 modifiers;
    # every stored value is decoded from exactly the bytes of its field, however many follow: the
    # strict-decode rule of C04 (a decoder that takes "what is there" depends on what follows)
    from .c10 import check_modifiers
    try:
        check_modifiers(ctx)
    except Undecided as e:
        ctx.undecided('R8-modifiers', ('bisturi/field.py', 'Field'), 'modifiers', str(e), 0)
    from ..model import strategy_variants
    from .c04 import check_strategy_strict
    for ci_, fi_, s_, parked_ in strategy_variants(repo, 'unpack'):
        try:
            check_strategy_strict(ctx, ci_, fi_, s_, parked_, rule='R14-decodes-its-own-bytes')
        except Undecided as e:
            ctx.undecided('R14-decodes-its-own-bytes', fi_, fi_.qual, str(e), fi_.node.lineno)
    from .c05 import check_codecs
    try:
        check_codecs(ctx, repo.cls('Int'))
    except Undecided as e:
        ctx.undecided('R1-int-codec', ('bisturi/field.py', 'Int'), 'Int codecs', str(e), 0)
    check_file_backed_raw(ctx)
    from .c03 import check_driver_holes
    check_driver_holes(ctx, rule='R14-raw-relative-to-cursor')
    total_uses = calls = 0
    seen = set()
    for ci, fi, s in unpack_strategies(repo):
        if fi.id in seen:
            continue
        seen.add(fi.id)
        ctx.unit('unpack_strategies')
        total_uses += check_function(ctx, fi, fi.node, fi.qual)
        calls += check_child_cursors(ctx, fi, fi.node, fi.qual, ci)
    pk = repo.cls('Packet')
    for name in ('unpack', 'unpack_impl'):
        fi = pk.methods.get(name)
        if fi is None:
            raise Undecided('anchor Packet.%s not found' % name)
        ctx.unit('functions')
        total_uses += check_function(ctx, fi, fi.node, fi.qual)
        if name == 'unpack_impl':
            calls += check_child_cursors(ctx, fi, fi.node, fi.qual, pk)
    # the entry point hands the caller's buffer and start offset to the driver unchanged
    from .c12 import check_packet_unpack
    check_packet_unpack(ctx, 'R14-entry-offset')
    calls += 1
    # helpers of the field modules that receive the buffer are held to the same rules
    seen_ids = set(seen)
    from ..effects import phase_of
    for fi in sorted(repo.functions.values(), key=lambda f: f.id):
        if fi.id in seen_ids or fi.module not in ('field', 'structural_fields', 'util') or phase_of(repo, fi)[0] != 'run':
            continue
        params = [a.arg for a in fi.node.args.args]
        if 'raw' in params and fi.node.name not in ('unpack', 'unpack_noop') and not fi.node.name.startswith('iterative'):
            from ..model import is_placeholder
            if is_placeholder(fi):
                continue
            ctx.unit('helpers_with_raw')
            total_uses += check_function(ctx, fi, fi.node, fi.qual)
    for t in repo.templates():
        if t.tree is None:
            ctx.undecided('R14-raw-relative-to-cursor', t.func, 'template at line %d' % t.lineno, 'does not parse: %s' % t.error, t.lineno)
            continue
        if 'raw' in t.text:
            ctx.unit('templates')
            total_uses += check_function(ctx, t.func, t.tree, 'template %s@%d' % (t.func.qual.split('.')[-1], t.lineno), True)
            for n in ast.walk(t.tree):
                if isinstance(n, ast.FunctionDef):
                    calls += check_child_cursors(ctx, t.func, n, 'template %s' % n.name)
            # loop block: offset = unpack(pkt=pkt, raw=raw, offset=offset, **k)
            for n in ast.walk(t.tree):
                if isinstance(n, ast.Call) and isinstance(n.func, ast.Name) and n.func.id == 'unpack':
                    kw = {k.arg: k.value for k in n.keywords}
                    st = 'template loop block: %s' % stmt_text(n)
                    calls += 1
                    if 'offset' in kw and canon(kw['offset']) == 'offset' and 'raw' in kw and canon(kw['raw']) == 'raw':
                        ctx.holds('R14-child-gets-cursor', t.func, st, 'child parsed at the current cursor', t.lineno, clause='d')
                    else:
                        ctx.violation('R14-child-gets-cursor', t.func, st, 'the generated per-field call does not pass (raw, current cursor)', t.lineno, clause='d')
    for d in D.get_drivers(repo):
        if d.kind == 'unpack':
            D.check_innermost(ctx, 'R14-entry-offset', d)
    # relative positioning is computed from the reference point (innermost-pkt-pos / cursor),
    # never from the absolute offset alone (C10 rules b, c on Move)
    from .c10 import check_move, check_sequence_pads, check_loop_generators_uniform
    check_move(ctx)
    check_sequence_pads(ctx)
    # ... and the generated driver leaves positioning to Move.unpack as the field loop does
    check_loop_generators_uniform(ctx)
    # every statement of a generated block that sets the cursor takes it from a field's unpack or
    # adds a width to it: a text hole in such a statement is arithmetic the rule does not see
    for t in repo.templates():
        if t.tree is None:
            continue
        for n in ast.walk(t.tree):
            if isinstance(n, ast.Assign) and any(isinstance(x, ast.Name) and x.id in ('offset', 'next_offset') for tg in n.targets for x in ast.walk(tg)):
                holes = [x.id for x in ast.walk(n.value) if isinstance(x, ast.Name) and x.id.startswith('__HOLE_')]
                # (the hole of the struct block's width is a number computed from the struct format: C03 rule)
                holes = [h for h in holes if h not in ('__HOLE_advance__',)]
                if holes:
                    ctx.undecided('R14-child-gets-cursor', t.func, 'template: %s' % stmt_text(n)[:100], 'the new cursor is generated text (%s): cannot see that it is the field\'s own unpack at the current cursor' % ', '.join(holes), t.lineno, clause='d')
    # (c) the cursor never moves backwards: sized reads carry the exact-length guard (a negative
    # size would make later fields re-read bytes before the cursor), C06 rule b
    from . import c06
    dci = repo.cls('Data')
    sel = c06.check_selection(ctx)
    done_ = set()
    for kind in ('int', 'field', 'callable', 'expression'):
        t = sel.get(kind)
        if t is None:
            continue
        f_ = repo.method(dci, t)
        key = (f_.id, 'callable' if kind == 'expression' else kind)
        if key in done_:
            continue
        done_.add(key)
        c06.classify_sized(ctx, dci, f_, 'callable' if kind == 'expression' else kind)
    # list the absolute constructs (not flagged)
    mv = repo.cls('Move').methods.get('unpack')
    if mv is not None:
        absolute = [stmt_text(n) for n in ast.walk(mv.node) if isinstance(n, ast.Return) and n.value is not None and 'offset' not in canon(n.value) and 'innermost' not in canon(n.value)]
        for a in absolute:
            ctx.note('absolute positioning (excluded by the statement): Move.unpack %s' % a)
    ctx.unit('raw_uses', total_uses)
    ctx.unit('child_calls', calls)
    ctx.floor('uses of the input buffer analysed', total_uses, 20)
    ctx.floor('child unpack calls analysed', calls, 8)
    ctx.trust(*ASSUMPTIONS)
