"""C17 -- Auto / AutoLength fields always read and serialize consistently.

Rule family R13 (descriptor typestate, slot flow, hook order):

 (a) typestate of Auto: __set__ writes flag := False and the real slot := value;
     __delete__ writes flag := True; __get__ returns the descriptor itself for class access,
     reads the flag with default True and returns func(instance) when enabled, the real slot
     otherwise; sync_before_pack copies exactly what __get__ returns into the real slot;
     AutoLength computes len(getattr(instance, length_of));
 (b) no __dict__: the flag name returned by Auto._compile reaches the class's __slots__; the
     descriptor name is removed from the slots and placed in the class dict; __slots__ is
     assigned before the class is created; the Packet base class has __slots__ = [];
     a described field is renamed to the hidden slot and tells the descriptor both names;
 (c) hook order in all four drivers: before-pack hooks run before the first field pack,
     after-unpack hooks after the last field; one hook is collected per described field and
     the getters return the matching lists; the generated code calls every hook with the packet;
 (d) the constructor routes the keyword for a described field through setattr (-> __set__),
     after the field's own init;
 (e) unpack builds the instance without initialising fields and nothing but
     __set__ / __delete__ writes the enabled flag.
The value of the user's function is not decided.

Round 4: (R13-copies-keep-state) Packet defines no copy / pickle protocol method that rebuilds
the packet from its field values.

Round 5: closures created in the hook-collecting loop that read the loop's variables late and
are kept.

Round 6: (b') a described field is listed under the attribute it reads and writes; __delete__
removes no slot; builder step order also from a table of step names.
Round 7: slot names assigned instead of accumulated in the builder's loop (loop_overwrites);
enumerate-indexed hook calls.
Round 8: field.init completes the keyword dict for its own field only; class accessors return the
builder's own lists, never an entry of the user's __bisturi__ dict.
Round 9: the protocol methods of the descriptor, and decorators around them, keep no deciding
state on the (per-class, shared) descriptor object.
"""
import ast

from .. import Undecided
from ..expr import canon, call_name, unparse, negate, conj
from ..model import stmt_text
from .. import drivers as D

EXPLANATION = __doc__
LEVEL_RULE = 'one obligation per typestate transition, slot-flow step, driver hook site and constructor step'
ASSUMPTIONS = [
    'a class whose bases all define __slots__ and which defines __slots__ itself has no instance __dict__',
    'assignment / del on an attribute held by a data descriptor in the class dict calls __set__ / __delete__',
]

FLAG = 'self.iam_enabled_attr_name'
REAL = 'self.real_field_name'


def gtexts(p):
    out = set()
    for g, pol in p.guards:
        t = g if pol else negate(g)
        for c in conj(t):
            out.add(canon(c))
    return out


def check_auto(ctx):
    repo = ctx.repo
    au = repo.cls('Auto')
    rule = 'R13-typestate'
    w = repo.walker()
    need = ('__get__', '__set__', '__delete__', 'sync_before_pack', '_compile', '__init__')
    for n in need:
        if n not in au.methods:
            raise Undecided('anchor Auto.%s not found' % n)
    ctx.unit('functions', 6)
    # __set__
    fi = au.methods['__set__']
    inst, val = [a.arg for a in fi.node.args.args][1:3]
    for p in w.paths(fi.node, cls=au):
        sets = {canon(e.name): e for e in p.setattrs() if canon(e.obj) == inst}
        ok = True
        if FLAG not in sets or not (isinstance(sets[FLAG].value, ast.Constant) and sets[FLAG].value.value is False):
            ok = ctx.violation(rule, fi, '__set__: flag := %s' % (canon(sets[FLAG].value) if FLAG in sets else 'not written'), 'an explicit assignment must disable the computed value (flag := False)', fi.node.lineno, clause='a')
        if REAL not in sets or canon(sets[REAL].value) != val:
            ok = ctx.violation(rule, fi, '__set__: real slot := %s' % (canon(sets[REAL].value) if REAL in sets else 'not written'), 'the assigned value must be stored in the real slot', fi.node.lineno, clause='a')
        if ok:
            ctx.holds(rule, fi, '__set__: flag := False; real slot := value', 'reads as the assigned value from now on', fi.node.lineno, clause='a')
    # __delete__
    fi = au.methods['__delete__']
    inst = [a.arg for a in fi.node.args.args][1]
    for p in w.paths(fi.node, cls=au):
        sets = {canon(e.name): e for e in p.setattrs() if canon(e.obj) == inst}
        removed = [e for e in p.all_effects() if (e.kind == 'call' and call_name(e.call) == 'delattr' and e.call.args and canon(e.call.args[0]) == inst)
                   or (e.kind == 'del' and canon(getattr(e.obj, 'value', e.obj)) == inst)]
        if removed:
            ctx.violation(rule, fi, '__delete__: %s' % removed[0].text()[:80], 'deleting the attribute also removes a slot of the packet: nothing re-creates it until the next pack or assignment, so a second delete (or a read of the raw slot, repr, ==) raises AttributeError', removed[0].lineno, clause='a', witness=True)
        elif FLAG in sets and isinstance(sets[FLAG].value, ast.Constant) and sets[FLAG].value.value is True:
            ctx.holds(rule, fi, '__delete__: flag := True', 'reads as the computed value again', fi.node.lineno, clause='a')
        else:
            ctx.violation(rule, fi, '__delete__: %s' % [e.text() for e in p.setattrs()], 'deleting the attribute must re-enable the computed value (flag := True)', fi.node.lineno, clause='a')
    # __get__
    fi = au.methods['__get__']
    inst = [a.arg for a in fi.node.args.args][1]
    flag_read = 'getattr(%s, %s, True)' % (inst, FLAG)
    flag_read2 = 'getattr(%s, %s)' % (inst, FLAG)          # inside try / except AttributeError: enabled
    seen = set()
    for p in repo.walker(inline_depth=1, split_ifexp=True).paths(fi.node, cls=au):
        gt = gtexts(p)
        r = p.ret()
        # "a flag that was never written counts as enabled" spelled with an exception handler
        unset = any(g.startswith("caught('AttributeError'") or g.startswith("caught('(AttributeError") for g in gt) and not any(FLAG in g for g in gt) \
            and any(e.kind == 'try_partial' and len(e.sub['stmts']) == 1 and
                    any(canon(v) == flag_read2 for bp in e.sub['body'] for v in list(bp.env.values()) + ([bp.end[1]] if bp.end and bp.end[1] is not None else []))
                    for e in p.effects)
        if unset:
            gt = gt | {flag_read}
        gt = {g.replace(flag_read2, flag_read) if not any(x.startswith("caught(") for x in gt) or True else g for g in gt}
        if ('(%s is None)' % inst) in gt:
            seen.add('class')
            if r is not None and canon(r) == 'self':
                ctx.holds(rule, fi, '__get__(None, owner) -> self', 'class access returns the descriptor', fi.node.lineno, clause='a')
            else:
                ctx.violation(rule, fi, '__get__(None, owner) -> %s' % (canon(r) if r is not None else None), 'class access must return the descriptor itself', fi.node.lineno, clause='a')
        elif flag_read in gt:
            seen.add('enabled')
            if r is not None and canon(r) == 'self.func(%s)' % inst:
                ctx.holds(rule, fi, '__get__: enabled -> self.func(instance)', 'computed value while not explicitly assigned', fi.node.lineno, clause='a')
            else:
                ctx.violation(rule, fi, '__get__: enabled -> %s' % (canon(r) if r is not None else None), 'while enabled the attribute must read as func(instance)', fi.node.lineno, clause='a')
        elif ('not ' + flag_read) in gt:
            seen.add('disabled')
            if r is not None and canon(r) == canon(ast.parse('getattr(%s, %s)' % (inst, REAL), mode='eval').body):
                ctx.holds(rule, fi, '__get__: disabled -> real slot', 'assigned value after an explicit assignment', fi.node.lineno, clause='a')
            else:
                ctx.violation(rule, fi, '__get__: disabled -> %s' % (canon(r) if r is not None else None), 'after an explicit assignment the attribute must read as the real slot', fi.node.lineno, clause='a')
        else:
            bad = [g for g in gt if FLAG in g]
            ctx.violation(rule, fi, '__get__ path [%s]' % '; '.join(sorted(gt)), 'the enabled flag must be read as getattr(instance, flag, True) (default: enabled): %s' % bad, fi.node.lineno, clause='a')
    if seen != {'class', 'enabled', 'disabled'}:
        ctx.violation(rule, fi, '__get__ paths %s' % sorted(seen), 'expected class access, enabled and disabled paths', fi.node.lineno, clause='a')
    # sync_before_pack
    fi = au.methods['sync_before_pack']
    inst = [a.arg for a in fi.node.args.args][1]
    for p in w.paths(fi.node, cls=au):
        sets = [e for e in p.setattrs() if canon(e.obj) == inst]
        ok = len(sets) == 1 and canon(sets[0].name) == REAL and canon(sets[0].value) in (
            'self.__get__(%s, type(%s))' % (inst, inst), 'self.__get__(%s, %s.__class__)' % (inst, inst), 'getattr(%s, self.descriptor_name)' % inst)
        if ok:
            ctx.holds(rule, fi, 'sync_before_pack: real slot := what __get__ returns', 'pack serializes exactly what the attribute reads as', fi.node.lineno, clause='a')
        else:
            ctx.violation(rule, fi, 'sync_before_pack: %s' % [e.text() for e in sets], 'the real slot must receive exactly the value the attribute currently reads as, and nothing else may be written', fi.node.lineno, clause='a')
    # __init__ / AutoLength
    fi = au.methods['__init__']
    if any(isinstance(n, ast.Assign) and canon(n.targets[0]) == 'self.func' and canon(n.value) == fi.node.args.args[1].arg for n in ast.walk(fi.node)):
        ctx.holds(rule, fi, 'Auto.__init__: self.func = func', 'the user function is the computed value', fi.node.lineno, clause='a')
    else:
        ctx.violation(rule, fi, 'Auto.__init__', 'the function is not stored as self.func', fi.node.lineno, clause='a')
    if repo.has_cls('AutoLength'):
        al = repo.cls('AutoLength')
        ini, cl = al.methods.get('__init__'), al.methods.get('calculate_length')
        if ini is None or cl is None:
            ctx.undecided(rule, (al.file, 'AutoLength'), 'AutoLength', '__init__ / calculate_length not found', al.node.lineno)
        else:
            ctx.unit('functions', 2)
            src = unparse(ini.node)
            p1 = ini.node.args.args[1].arg
            if 'self.length_of = %s' % p1 in src and 'Auto.__init__(self, self.calculate_length)' in src:
                ctx.holds(rule, ini, 'AutoLength.__init__: length_of stored; func = calculate_length', 'tracks the named field', ini.node.lineno, clause='a')
            else:
                ctx.violation(rule, ini, 'AutoLength.__init__', 'length_of is not stored or calculate_length is not the function', ini.node.lineno, clause='a')
            inst = cl.node.args.args[1].arg
            rets = [r for r in ast.walk(cl.node) if isinstance(r, ast.Return)]
            if len(rets) == 1 and rets[0].value is not None and canon(rets[0].value) == 'len(getattr(%s, self.length_of))' % inst:
                ctx.holds(rule, cl, 'calculate_length: len(getattr(instance, length_of))', 'the current length of the tracked field', cl.node.lineno, clause='a')
            else:
                ctx.violation(rule, cl, 'calculate_length returns %s' % [canon(r.value) for r in rets if r.value is not None], 'AutoLength must read as the current length of the tracked field', cl.node.lineno, clause='a')


def check_slots(ctx):
    repo = ctx.repo
    rule = 'R13-slot-flow'
    au = repo.cls('Auto')
    comp = au.methods['_compile']
    # flag name returned
    rets = [r for r in ast.walk(comp.node) if isinstance(r, ast.Return)]
    flag_assign = [n for n in ast.walk(comp.node) if isinstance(n, ast.Assign) and canon(n.targets[0]) == FLAG]
    if len(rets) == 1 and rets[0].value is not None and canon(rets[0].value) == '[%s]' % FLAG and flag_assign:
        v = flag_assign[0].value
        # any string built from the descriptor name (% formatting, format(), f-string, +)
        per_name = not isinstance(v, ast.Constant) and any(isinstance(x, ast.Name) and x.id == 'descriptor_name' for x in ast.walk(v))
        if per_name:
            ctx.holds(rule, comp, 'Auto._compile: flag = "..%s.." % descriptor_name; return [flag]', 'one flag slot per described attribute', comp.node.lineno, clause='b')
        else:
            ctx.violation(rule, comp, 'Auto._compile: flag = %s' % canon(v), 'the flag slot name must depend on the descriptor name (two descriptors would share one flag)', comp.node.lineno, clause='b')
    else:
        ctx.violation(rule, comp, 'Auto._compile returns %s' % [canon(r.value) for r in rets if r.value is not None], 'the flag slot name must be returned so that it is declared in __slots__', comp.node.lineno, clause='b')
    pb = repo.cls('PacketClassBuilder')
    m = pb.methods
    for n in ('compile_descriptors_and_extend_slots', 'add_descriptors_to_class_definition', 'create_class', 'collect_sync_methods_from_field_descriptors',
              'add_sync_descriptor_class_methods', 'compile_fields_and_create_slots'):
        if n not in m:
            raise Undecided('anchor PacketClassBuilder.%s not found' % n)
    ctx.unit('functions', 6)
    fi = m['compile_descriptors_and_extend_slots']
    src = unparse(fi.node)
    from ..model import loop_overwrites
    lost = loop_overwrites(fi.node)
    if lost:
        v_, loop_, asg_ = lost[0]
        ctx.violation(rule, fi, 'compile_descriptors_and_extend_slots: %s' % stmt_text(asg_)[:90], 'the slot names of each described field replace those of the one before (%s is assigned, not extended, inside the loop): only the last described field gets its flag slot, so setting / forcing any other raises AttributeError -- which the constructor swallows, ignoring the keyword' % v_, asg_.lineno, clause='b', witness=True)
    elif 'self.slots +=' in src and 'field.descriptor._compile(' in src and 'for (name, field) in self.fields' in src.replace('name, field', '(name, field)').replace('((', '(').replace('))', ')'):
        ctx.holds(rule, fi, 'self.slots += descriptor._compile(...) for every described field', 'the flag slot is declared', fi.node.lineno, clause='b')
    elif 'self.slots' in src and '_compile(' in src:
        ctx.holds(rule, fi, 'self.slots extended with descriptor._compile(...)', 'the flag slot is declared', fi.node.lineno, clause='b')
    else:
        ctx.violation(rule, fi, 'compile_descriptors_and_extend_slots', 'the slot names returned by the descriptors do not reach self.slots: instances need a __dict__ (AttributeError on the flag)', fi.node.lineno, clause='b')
    fi = m['add_descriptors_to_class_definition']
    w = repo.walker()
    ok_attr = ok_rm = False
    for p in w.paths(fi.node, cls=pb):
        for e in p.all_effects():
            if e.kind == 'store_sub' and canon(e.obj) == 'self.attrs' and canon(e.name).endswith('.descriptor_name') and canon(e.value).endswith('.descriptor'):
                ok_attr = True
            if e.kind == 'call' and canon(e.call.func) == 'self.slots.remove' and e.call.args and canon(e.call.args[0]).endswith('.descriptor_name'):
                ok_rm = True
    if ok_attr and ok_rm:
        ctx.holds(rule, fi, 'attrs[descriptor_name] = descriptor; slots.remove(descriptor_name)', 'the descriptor lives in the class dict, not in a slot of the same name', fi.node.lineno, clause='b')
    else:
        ctx.violation(rule, fi, 'add_descriptors_to_class_definition (class dict: %s, slot removed: %s)' % (ok_attr, ok_rm), 'the descriptor must be installed in the class dict and its name removed from __slots__ (a slot of the same name would shadow it)', fi.node.lineno, clause='b')
    fi = m['create_class']
    stmts = fi.node.body
    idx_slots = [i for i, s in enumerate(stmts) if isinstance(s, ast.Assign) and canon(s.targets[0]) == "self.attrs['__slots__']" and canon(s.value) == 'self.slots']
    idx_new = [i for i, s in enumerate(stmts) if 'type.__new__' in unparse(s)]
    if idx_slots and idx_new and idx_slots[0] < idx_new[0]:
        ctx.holds(rule, fi, "attrs['__slots__'] = self.slots before type.__new__", 'the class is created with the collected slots', fi.node.lineno, clause='b')
    else:
        ctx.violation(rule, fi, 'create_class', "__slots__ must be set from self.slots before the class is created", fi.node.lineno, clause='b')
    mp = repo.cls('MetaPacket').methods.get('__new__')
    if mp is not None:
        src = unparse(mp.node)
        if "attrs['__slots__'] = []" in src:
            ctx.holds(rule, mp, "Packet base class: attrs['__slots__'] = []", 'no __dict__ is inherited from the base', mp.node.lineno, clause='b')
        else:
            ctx.violation(rule, mp, 'MetaPacket.__new__', 'the Packet base class does not declare empty __slots__: every instance gets a __dict__', mp.node.lineno, clause='b')
        order = ['compile_fields_and_descriptors_and_create_slots', 'collect_sync_methods_from_field_descriptors', 'remove_fields_from_and_add_descriptors_to_class_definition', 'create_packet_class_and_add_its_special_methods', 'optimize_methods']
        pos = [src.find('builder.%s()' % o) for o in order]
        if all(p >= 0 for p in pos) and pos == sorted(pos):
            ctx.holds(rule, mp, 'builder steps: compile slots -> collect hooks -> install descriptors -> create class -> generate code', 'slots and hooks exist before the class and its generated code', mp.node.lineno, clause='b')
        elif all(p >= 0 for p in pos):
            ctx.violation(rule, mp, 'MetaPacket.__new__ builder order', 'the builder steps are out of order (%s)' % pos, mp.node.lineno, clause='b', witness=True)
        else:
            # the steps as an ordered table of method names (strings / methodcaller('name')) run by a loop
            tab_order = None
            for holder in (repo.cls('PacketClassBuilder').node, repo.cls('MetaPacket').node, repo.modules[pb.module]['tree']):
                for st_ in [x for b_ in holder.body if isinstance(b_, ast.Assign) for x in ast.walk(b_.value) if isinstance(x, (ast.Tuple, ast.List))]:
                    if True:
                        names_ = []
                        for el in st_.elts:
                            if isinstance(el, ast.Constant) and isinstance(el.value, str):
                                names_.append(el.value)
                            elif isinstance(el, ast.Call) and (call_name(el) or '').split('.')[-1] == 'methodcaller' and el.args and isinstance(el.args[0], ast.Constant):
                                names_.append(el.args[0].value)
                        if all(o in names_ for o in order):
                            tab_order = [names_.index(o) for o in order]
            if tab_order is not None and tab_order == sorted(tab_order):
                ctx.holds(rule, mp, 'builder steps (table): compile slots -> collect hooks -> install descriptors -> create class -> generate code', 'slots and hooks exist before the class and its generated code', mp.node.lineno, clause='b')
            elif tab_order is not None:
                ctx.violation(rule, mp, 'builder step table order %s' % tab_order, 'the builder steps are out of order', mp.node.lineno, clause='b', witness=True)
            else:
                ctx.undecided(rule, mp, 'MetaPacket.__new__ builder order', 'cannot see in which order the builder steps run', mp.node.lineno, clause='b')
    # Field._compile_impl and _describe_yourself
    fld = repo.cls('Field')
    ci_ = fld.methods.get('_compile_impl')
    verdicts = []
    for p in repo.walker().paths(ci_.node, cls=fld):
        if p.raises():
            continue
        r = p.ret()
        gt_ = gtexts(p)
        if r is None or not isinstance(r, (ast.List, ast.Tuple)):
            verdicts.append(None)
            continue
        names = [canon(x) for x in r.elts]
        described = 'self.descriptor' in gt_
        if 'self.field_name' not in names:
            verdicts.append(('no-own-slot', names))
        elif described and 'self.descriptor_name' not in names:
            verdicts.append(('no-descriptor-slot', names))
        else:
            verdicts.append(True)
    if verdicts and all(v is True for v in verdicts):
        ctx.holds(rule, ci_, 'slots = [field_name] (+ descriptor_name when described)', 'hidden slot declared', ci_.node.lineno, clause='b')
    elif any(isinstance(v, tuple) for v in verdicts):
        v = [x for x in verdicts if isinstance(x, tuple)][0]
        ctx.violation(rule, ci_, 'Field._compile_impl returns %s' % v[1], 'the field\'s own slot is not declared' if v[0] == 'no-own-slot' else 'the public name of a described field is not declared: the descriptor cannot be published under it', ci_.node.lineno, clause='b', witness=True)
    else:
        ctx.undecided(rule, ci_, 'Field._compile_impl', 'cannot see which slots it returns', ci_.node.lineno, clause='b')
    dy = fld.methods.get('_describe_yourself')
    # on the path of a described field: the public name is kept as descriptor_name, the field
    # moves to the hidden name "_described_<name>", the descriptor is told both names
    P = dy.node.args.args[1].arg if len(dy.node.args.args) > 1 else 'field_name'
    want = {('self', 'descriptor_name'): {P}, ('self', 'field_name'): {"fmt('_described_{}', %s)" % P},
            ('self.descriptor', 'descriptor_name'): {'self.descriptor_name', P},
            ('self.descriptor', 'real_field_name'): {'self.field_name', "fmt('_described_{}', %s)" % P}}
    seen_described = False
    missing = None
    w_dy = repo.walker(max_paths=ctx.max_paths)
    w_dy.read_heap = True       # self.descriptor_name = self.field_name reads what the statement before stored
    for p in w_dy.paths(dy.node, cls=fld):
        if p.raises() or 'self.descriptor' not in gtexts(p):
            continue
        seen_described = True
        got = {}
        cur_ = {}
        for e in p.effects:
            if e.kind == 'store_attr':
                vals = {canon(e.value)} | ({canon(e.raw)} if e.raw is not None else set())
                # what the field's own attributes held when the value was computed (the method calls
                # on the way set other attributes: aligned() does not rename the field)
                for v_ in list(vals):
                    r_ = v_
                    for k_, cv_ in cur_.items():
                        r_ = r_.replace(k_, cv_)
                    vals.add(r_)
                got[(canon(e.obj), e.name)] = vals
                if canon(e.obj) == 'self' and e.name in ('field_name', 'descriptor_name'):
                    best = sorted(vals, key=lambda t: ('self.' in t, len(t)))[0]
                    cur_['self.%s' % e.name] = best
        miss = ['%s.%s' % k for k, v in want.items() if not (got.get(k, set()) & v)]
        if miss:
            missing = miss
    if seen_described and not missing:
        ctx.holds(rule, dy, 'described field: hidden name "_described_<name>", descriptor told both names', 'the descriptor and the field agree on the slots', dy.node.lineno, clause='b')
    elif not seen_described:
        ctx.undecided(rule, dy, '_describe_yourself', 'no path is guarded by self.descriptor', dy.node.lineno, clause='b')
    else:
        ctx.violation(rule, dy, '_describe_yourself', 'on the described path these are not set as expected: %s' % missing, dy.node.lineno, clause='b')
    # (c) collection and getters
    fi = m['collect_sync_methods_from_field_descriptors']
    # every described field contributes its sync_before_pack to the before-pack list and its
    # sync_after_unpack to the after-unpack list (never crossed)
    lists = {'self.sync_before_pack_methods': 'sync_before_pack', 'self.sync_after_unpack_methods': 'sync_after_unpack'}
    good, crossed, loops_over_fields, other_lists = set(), [], False, set()
    for p in repo.walker(max_paths=ctx.max_paths).paths(fi.node, cls=pb):
        for e in p.all_effects():
            if e.kind == 'loop' and e.sub['iter'] is not None and canon(e.sub['iter']) == 'self.fields':
                loops_over_fields = True
            elif e.kind == 'loop' and e.sub['iter'] is not None and isinstance(e.sub['iter'], ast.Attribute) and canon(e.sub['iter'].value) == 'self':
                other_lists.add(canon(e.sub['iter']))
            if e.kind == 'call' and isinstance(e.call.func, ast.Attribute) and e.call.func.attr == 'append' and len(e.call.args) == 1:
                recv, arg = canon(e.call.func.value), e.call.args[0]
                if recv in lists and isinstance(arg, ast.Attribute) and arg.attr in lists.values():
                    if arg.attr == lists[recv] and canon(arg.value).endswith('.descriptor'):
                        good.add(recv)
                    else:
                        crossed.append('%s.append(%s)' % (recv, canon(arg)))
    src = unparse(fi.node)
    # (names spelled in a constant of the module that the function reads count as mentioned)
    used = {n_.id for n_ in ast.walk(fi.node) if isinstance(n_, ast.Name)}
    for st_ in repo.modules[fi.module]['tree'].body:
        if isinstance(st_, ast.Assign) and any(isinstance(t_, ast.Name) and t_.id in used for t_ in st_.targets):
            src += '\n' + unparse(st_)
    if crossed:
        ctx.violation('R13-hooks', fi, crossed[0], 'a hook is collected into the list of the other phase (or not taken from the field\'s descriptor)', fi.node.lineno, clause='c')
    elif good == set(lists) and loops_over_fields:
        ctx.holds('R13-hooks', fi, 'one before-pack / after-unpack hook collected per described field', 'no described field is forgotten', fi.node.lineno, clause='c')
    elif good == set(lists) and other_lists:
        ctx.violation('R13-hooks', fi, 'for ... in %s' % sorted(other_lists)[0], 'the hooks are collected from another list than self.fields (the final field list, embedded packets included): described fields can be missed', fi.node.lineno, clause='c')
    elif not all(v in src for v in lists.values()):
        ctx.violation('R13-hooks', fi, 'collect_sync_methods_from_field_descriptors', 'hooks are not collected into the list of their own phase for every described field (a hook kind is never mentioned)', fi.node.lineno, clause='c')
    else:
        ctx.undecided('R13-hooks', fi, 'collect_sync_methods_from_field_descriptors', 'both hook kinds and both lists are mentioned, but the rule cannot follow how the hooks reach the lists (not the append-per-field form)', fi.node.lineno, clause='c')
    fi = m['add_sync_descriptor_class_methods']
    okg = True
    OTHER = {'sync_before_pack': 'sync_after_unpack', 'sync_after_unpack': 'sync_before_pack'}
    for n in ast.walk(fi.node):
        if isinstance(n, ast.FunctionDef) and n.name.startswith('get_sync_'):
            phase = n.name[len('get_'):-len('_methods')] if n.name.endswith('_methods') else n.name[len('get_'):]
            want = 'self.' + n.name[len('get_'):]
            rets = [r for r in ast.walk(n) if isinstance(r, ast.Return)]
            got = [canon(r.value) for r in rets if r.value is not None]
            if len(rets) == 1 and got == [want]:
                continue
            okg = False
            if any(OTHER.get(phase, '\0') in g and phase not in g for g in got):
                ctx.violation('R13-hooks', fi, '%s returns %s' % (n.name, got), 'the getter returns the list of the other phase', n.lineno, clause='c', witness=True)
            else:
                okg = None
                ctx.undecided('R13-hooks', fi, '%s returns %s' % (n.name, got), 'cannot see that this is the list the hooks of this phase were collected into', n.lineno, clause='c')
    src = unparse(fi.node)
    installs = [(canon(a.targets[0]), canon(a.value)) for a in ast.walk(fi.node) if isinstance(a, ast.Assign) and len(a.targets) == 1 and canon(a.targets[0]).startswith('self.cls.get_sync_')]
    crossed_names = [(t, v) for t, v in installs if v.startswith('get_sync_') and t != 'self.cls.' + v]
    if crossed_names:
        okg = False
        ctx.violation('R13-hooks', fi, '%s = %s' % crossed_names[0], 'the getters are installed under the wrong names', fi.node.lineno, clause='c', witness=True)
    elif 'self.cls.get_sync_before_pack_methods = get_sync_before_pack_methods' not in src or 'self.cls.get_sync_after_unpack_methods = get_sync_after_unpack_methods' not in src:
        if okg:
            okg = None
        ctx.undecided('R13-hooks', fi, 'add_sync_descriptor_class_methods', 'cannot see under which names the getters are installed', fi.node.lineno, clause='c')
    if okg:
        ctx.holds('R13-hooks', fi, 'get_sync_before_pack_methods / get_sync_after_unpack_methods return their own lists', 'drivers see the hooks of their phase', fi.node.lineno, clause='c')


def _indexes_by_enumerate(r, seq):
    """some comprehension in ``r`` formats the first element of ``enumerate(seq)`` for every entry:
    the same indices as range(len(seq))"""
    for n in ast.walk(r):
        if isinstance(n, (ast.GeneratorExp, ast.ListComp)) and len(n.generators) == 1 and not n.generators[0].ifs:
            g = n.generators[0]
            if isinstance(g.iter, ast.Call) and isinstance(g.iter.func, ast.Name) and g.iter.func.id == 'enumerate' and len(g.iter.args) == 1 and not g.iter.keywords \
                    and canon(g.iter.args[0]) == seq and isinstance(g.target, ast.Tuple) and len(g.target.elts) == 2 and isinstance(g.target.elts[0], ast.Name):
                i = g.target.elts[0].id
                if isinstance(n.elt, ast.BinOp) and isinstance(n.elt.op, ast.Mod) and canon(n.elt.right) in (i, '(%s,)' % i):
                    return True
    return False


def check_generated_sync(ctx):
    repo = ctx.repo
    cg = repo.cls('CodeGenerator')
    fi = cg.methods.get('generate_unrolled_code_for_descriptor_sync')
    if fi is None:
        raise Undecided('anchor generate_unrolled_code_for_descriptor_sync not found')
    ctx.unit('functions')
    w = repo.walker(split_ifexp=True)
    flag = fi.node.args.args[1].arg
    seen = set()
    for p in w.paths(fi.node, cls=cg):
        gt = gtexts(p)
        r = p.ret()
        side = 'pack' if flag in gt else 'unpack' if ('not ' + flag) in gt else None
        if side is None:
            continue
        want_getter = 'get_sync_before_pack_methods' if side == 'pack' else 'get_sync_after_unpack_methods'
        other = 'get_sync_after_unpack_methods' if side == 'pack' else 'get_sync_before_pack_methods'
        if r is None:
            continue
        txt = canon(r)
        if isinstance(r, ast.Constant) and r.value == '':
            if ('not self.pkt_class.%s()' % want_getter) in gt:
                ctx.holds('R13-hooks', fi, '%s: no hooks -> no code' % side, 'nothing to run', fi.node.lineno, clause='c')
            else:
                ctx.violation('R13-hooks', fi, '%s: returns "" under [%s]' % (side, '; '.join(sorted(gt))), 'the sync code is dropped although hooks exist', fi.node.lineno, clause='c')
            continue
        seen.add(side)
        # the text may be assembled in a list: add what the list starts with and what the loop
        # over the hooks appends to it
        for e in p.effects:
            if e.kind == 'loop':
                txt += ' ' + canon(e.sub['iter']) if e.sub['iter'] is not None else ''
                for v_ in e.sub['entry'].values():
                    if v_ is not None:
                        txt += ' ' + canon(v_)
                for bp in e.sub['body']:
                    for x in bp.effects:
                        if x.kind == 'call' and isinstance(x.call.func, ast.Attribute) and x.call.func.attr == 'append':
                            txt += ' ' + ' '.join(canon(a) for a in x.call.args)
        ok = ('pkt.%s()' % want_getter) in txt and other not in txt and "sync_methods[%i](pkt)" in txt and (('range(len(self.pkt_class.%s()))' % want_getter) in txt or _indexes_by_enumerate(r, 'self.pkt_class.%s()' % want_getter))
        if ok:
            ctx.holds('R13-hooks', fi, '%s: sync_methods = pkt.%s(); sync_methods[i](pkt) for every i' % (side, want_getter), 'every hook of the phase is called with the packet', fi.node.lineno, clause='c')
        else:
            ctx.violation('R13-hooks', fi, '%s: %s' % (side, txt[:200]), 'the generated sync code must fetch pkt.%s() and call every entry with the packet' % want_getter, fi.node.lineno, clause='c')
    if seen != {'pack', 'unpack'}:
        ctx.violation('R13-hooks', fi, 'generated sync code for %s' % sorted(seen), 'expected code for both phases', fi.node.lineno, clause='c')
    # template hole values: pack -> sync_for_pack=True, unpack -> False
    for t in repo.templates():
        for name, want in (('pack_impl', True), ('unpack_impl', False)):
            if t.tree is not None and name in t.defines():
                v = t.values.get('sync_descriptors_code')
                okv = isinstance(v, ast.Call) and canon(v.func) == 'self.generate_unrolled_code_for_descriptor_sync' and \
                    ((v.keywords and v.keywords[0].arg == flag and isinstance(v.keywords[0].value, ast.Constant) and v.keywords[0].value.value is want) or
                     (v.args and isinstance(v.args[0], ast.Constant) and v.args[0].value is want))
                if okv:
                    ctx.holds('R13-hooks', t.func, '%s template: sync code for %s' % (name, 'pack' if want else 'unpack'), 'the driver gets the hooks of its own phase', t.lineno, clause='c')
                else:
                    ctx.violation('R13-hooks', t.func, '%s template: sync hole = %s' % (name, canon(v) if v is not None else None), 'the driver is given the sync code of the other phase', t.lineno, clause='c')


def check_constructor(ctx):
    repo = ctx.repo
    pk = repo.cls('Packet')
    fi = pk.methods.get('__init__')
    rule = 'R13-constructor'
    w = repo.walker()
    ok = False
    for p in w.paths(fi.node, cls=pk):
        for e in p.effects:
            if e.kind != 'loop':
                continue
            it = canon(e.sub['iter'])
            if 'get_fields()' not in it:
                continue
            item = '<item of %d>' % e.sub['phi']
            for bp in e.sub['body']:
                inits = [x for x in bp.effects if x.kind == 'call' and canon(x.call.func) == '%s[1].init' % item]
                sets = [x for x in bp.effects if x.kind == 'setattr' and canon(x.obj) == 'self']
                if not inits:
                    ctx.violation(rule, fi, 'constructor loop body', 'a field is not initialised', e.lineno, clause='d')
                    continue
                for s in sets:
                    nm, v = canon(s.name), canon(s.value)
                    names_ok = ('%s[1].descriptor_name' % item, "getattr(%s[1], 'descriptor_name', None)" % item)
                    if nm in names_ok and v in ['defaults[%s]' % x for x in names_ok] and bp.effects.index(s) > bp.effects.index(inits[0]):
                        ok = True
                    else:
                        ctx.violation(rule, fi, s.text(), 'the constructor writes %s directly: the keyword for a described field must go through setattr(self, descriptor_name, defaults[descriptor_name]) after field.init' % nm, s.lineno, clause='d')
    if ok:
        ctx.holds(rule, fi, 'field.init(self, defaults); setattr(self, descriptor_name, defaults[descriptor_name])', 'a constructor keyword acts like an explicit assignment (__set__)', fi.node.lineno, clause='d')
    else:
        ctx.violation(rule, fi, 'Packet.__init__', 'the keyword for a described field is not routed through the descriptor', fi.node.lineno, clause='d')
    # tolerate fields without descriptor: except AttributeError / KeyError
    hs = []
    for t in ast.walk(fi.node):
        if isinstance(t, ast.Try):
            for h in t.handlers:
                if h.type is None:
                    hs.append('<all>')
                elif isinstance(h.type, ast.Tuple):
                    hs.extend(unparse(x) for x in h.type.elts)
                else:
                    hs.append(unparse(h.type))
    if ('KeyError' in hs or 'LookupError' in hs) and 'AttributeError' in hs or 'Exception' in hs or '<all>' in hs:
        ctx.holds(rule, fi, 'except AttributeError / KeyError: pass', 'fields without descriptor or keyword are skipped', fi.node.lineno, clause='d')
    else:
        ctx.violation(rule, fi, 'handlers %s' % hs, 'a missing keyword / descriptor must be tolerated', fi.node.lineno, clause='d')
    # (e)
    up = pk.methods.get('unpack')
    if '_initialize_fields=False' in unparse(up.node):
        ctx.holds('R13-flag-writers', up, 'cls(_initialize_fields=False)', 'a parsed packet starts with the flag unset (= enabled by default)', up.node.lineno, clause='e')
    else:
        ctx.violation('R13-flag-writers', up, 'Packet.unpack', 'the parsed instance is initialised with defaults first', up.node.lineno, clause='e')
    # nested packets parsed through a Ref also start blank (flag unset)
    rf = repo.cls('Ref')
    w2 = repo.walker()
    from ..model import ref_strategies
    rs = ref_strategies(repo)
    for fi2 in (rs['unpack_packet'], rs['unpack_callable']):
        mname = fi2.node.name
        for p in w2.paths(fi2.node, cls=rf):
            if p.raises():
                continue
            for e in p.setattrs():
                if canon(e.name) != 'self.field_name':
                    continue
                v = e.value
                blank = isinstance(v, ast.Call) and any(k.arg == '_initialize_fields' and isinstance(k.value, ast.Constant) and k.value.value is False for k in v.keywords)
                st = '%s stores %s' % (mname, canon(v)[:100])
                if blank:
                    ctx.holds('R13-flag-writers', fi2, st, 'the nested packet is parsed into a blank instance (no descriptor state inherited)', e.lineno, clause='e')
                else:
                    ctx.violation('R13-flag-writers', fi2, st, 'the nested packet is parsed into a pre-populated object (prototype / selector result): an explicitly assigned descriptor of the prototype stays disabled in every parsed packet', e.lineno, clause='e')
    writers = []
    for f in repo.functions.values():
        if f.node.name in repo.absorbed:
            continue            # its statements live in (and are attributed to) its callers
        for n in ast.walk(f.node):
            if isinstance(n, ast.Call) and isinstance(n.func, ast.Name) and n.func.id == 'setattr' and len(n.args) == 3 and 'iam_enabled_attr_name' in canon(n.args[1]):
                # __set__ / __delete__ of Auto or of a base class Auto inherits them from
                if f.node.name in ('__set__', '__delete__') and f.cls is not None and repo.has_cls('Auto') and f.cls in repo.mro(repo.cls('Auto')) \
                        and repo.method(repo.cls('Auto'), f.node.name) is f:
                    writers.append('Auto.' + f.node.name)
                else:
                    writers.append(f.qual)
    extra = sorted(set(writers) - {'Auto.__set__', 'Auto.__delete__'})
    if extra:
        ctx.violation('R13-flag-writers', ('bisturi/descriptor.py', 'Auto'), 'flag writers: %s' % sorted(set(writers)), 'the enabled flag is written outside __set__ / __delete__: %s' % extra, 0, clause='e')
    else:
        ctx.holds('R13-flag-writers', ('bisturi/descriptor.py', 'Auto'), 'flag writers: %s' % sorted(set(writers)), 'only explicit set / delete change the state', 0, clause='e')


COPY_PROTOCOL = ('__deepcopy__', '__copy__', '__reduce__', '__reduce_ex__', '__getstate__', '__setstate__', '__getnewargs__', '__getnewargs_ex__')


def check_copies_keep_state(ctx, rule='R13-copies-keep-state'):
    """"explicitly assigned" lives in a per-packet slot that is not a field: a copy of a packet
    (prototype defaults of Ref are copies) keeps it only if every slot is copied.  The default
    copy / pickle protocol does that; a protocol method of Packet that rebuilds the packet from
    its field values does not"""
    repo = ctx.repo
    pk = repo.cls('Packet')
    found = [(n, fi) for c in repo.mro(pk) for n, fi in c.methods.items() if n in COPY_PROTOCOL]
    if not found:
        ctx.holds(rule, (pk.file, 'Packet'), 'Packet defines none of %s' % ', '.join(COPY_PROTOCOL[:6]), 'copies are made slot by slot by the default protocol: the flag slot travels with the raw value', pk.node.lineno, clause='a')
        return
    for n, fi in found:
        rebuilds = [c for c in ast.walk(fi.node) if isinstance(c, ast.Call) and canon(c.func) in ('self.__class__', 'type(self)', 'cls', 'self.__class__.__new__', 'object.__new__')]
        over_fields = any(isinstance(l, ast.For) and 'get_fields()' in canon(l.iter) for l in ast.walk(fi.node))
        if rebuilds and over_fields:
            ctx.violation(rule, fi, 'Packet.%s: %s' % (n, stmt_text(rebuilds[0])[:100]), 'the copy is rebuilt from the values of get_fields(): the "explicitly assigned" slot of a described field is not a field, so the copy reads as computed again', fi.node.lineno, clause='a', witness=True)
        else:
            ctx.undecided(rule, fi, 'Packet.%s' % n, 'a custom copy / pickle protocol: cannot see that every slot (the descriptor flags included) is carried over', fi.node.lineno, clause='a')


def check_described_names(ctx):
    """Round 6.  (b') the name a field is listed under (get_fields(), generated code: pkt.<name>) is
    the attribute it reads and writes (self.field_name): a described field listed under its public
    name makes the generated code assign the wire value *through the descriptor* (Auto.__set__),
    which switches the automatic value off after the first unpack"""
    repo = ctx.repo
    rule = 'R13-slot-flow'
    fld = repo.cls('Field')
    fi = fld.methods.get('_describe_yourself')
    if fi is None:
        ctx.undecided(rule, (fld.file, 'Field'), 'Field._describe_yourself', 'anchor not found', fld.node.lineno, clause='b')
        return
    n = 0
    for p in repo.walker(inline_depth=2).paths(fi.node, cls=fld):
        if p.raises():
            continue
        r = p.ret()
        if not isinstance(r, (ast.List, ast.Tuple)):
            continue
        stored = [e for e in p.all_effects() if e.kind == 'store_attr' and canon(e.obj) == 'self' and e.name == 'field_name']
        own = canon(stored[-1].value) if stored else None
        for el in r.elts:
            if isinstance(el, ast.Tuple) and len(el.elts) == 2 and canon(el.elts[1]) == 'self':
                n += 1
                listed = canon(el.elts[0])
                st = 'path [%s]: listed as %s, self.field_name = %s' % ('; '.join(p.guard_texts())[:80], listed, own)
                if listed in ('self.field_name', own):
                    ctx.holds(rule, fi, st, 'listed under the attribute it uses', fi.node.lineno, clause='b')
                elif own is not None:
                    ctx.violation(rule, fi, st, 'the field is listed under another name than the attribute it reads and writes: the generated code and the comparison / representation address the packet through that other name (for a described field: through the descriptor)', fi.node.lineno, clause='b', witness=True)
                else:
                    ctx.undecided(rule, fi, st, 'cannot relate the listed name to self.field_name', fi.node.lineno, clause='b')
    if not n:
        ctx.undecided(rule, fi, 'Field._describe_yourself', 'no (name, self) entry found in what it returns', fi.node.lineno, clause='b')


def check_class_tables_are_the_builders(ctx, rule='R13-hooks'):
    """Round 8.  get_fields() / get_sync_*_methods() return lists that belong to the class: built
    by its own builder and read from it.  A list parked in the class configuration (__bisturi__ /
    bisturi_conf) lives in a dict the user wrote and may share between classes (LITTLE =
    {'endianness': 'little'} used by ten classes): the class defined last replaces it for all"""
    repo = ctx.repo
    pb = repo.cls('PacketClassBuilder')
    n = 0
    bad = False
    for mname, fi in pb.methods.items():
        if not mname.startswith('add_'):
            continue
        for inner in ast.walk(fi.node):
            if isinstance(inner, (ast.FunctionDef, ast.Lambda)) and inner is not fi.node:
                rets = [r.value for r in ast.walk(inner) if isinstance(r, ast.Return) and r.value is not None] if isinstance(inner, ast.FunctionDef) else [inner.body]
                for r in rets:
                    n += 1
                    t = canon(r)
                    if '__bisturi__' in t or 'bisturi_conf' in t:
                        bad = True
                        ctx.violation(rule, fi, '%s: return %s' % (mname, t[:80]), 'the class reads its table from the configuration dict, an object the user wrote and may share between classes: every class that shares it gets the table of the class defined last (its fields / sync hooks run for the others)', getattr(r, 'lineno', fi.node.lineno), clause='c', witness=True)
    if n and not bad:
        ctx.holds(rule, pb.methods.get('add_sync_descriptor_class_methods') or (pb.file, 'PacketClassBuilder'), 'class accessors return the builder\'s own lists', 'no table of a class lives in the user\'s configuration dict', 0, clause='c')


def check_protocol_methods_keep_no_state_on_the_descriptor(ctx, rule='R13-typestate'):
    """Round 9.  the descriptor object is one per class, shared by every packet of the class:
    ``__get__`` / ``__set__`` / ``__delete__`` / the sync hook, and any decorator wrapped around
    them, keep what they know in the packet, never in the descriptor.  A wrapper that writes an
    attribute of its first argument (a "running" flag, a memo) makes the read of one packet
    depend on what another packet of the class is doing"""
    repo = ctx.repo
    au = repo.cls('Auto')
    for mname in ('__get__', '__set__', '__delete__', 'sync_before_pack'):
        fi = au.methods.get(mname)
        if fi is None:
            continue
        for dec in fi.node.decorator_list:
            f = dec.func if isinstance(dec, ast.Call) else dec
            dn = f.id if isinstance(f, ast.Name) else f.attr if isinstance(f, ast.Attribute) else None
            target = next((x for (m_, n_), x in repo.module_funcs.items() if n_ == dn), None)
            st = 'Auto.%s decorated with %s' % (mname, unparse(dec)[:60])
            if target is None:
                ctx.undecided(rule, fi, st, 'the decorator is not a function of the package: cannot see what it keeps on the descriptor', fi.node.lineno, clause='a')
                continue
            writes = []
            for inner in ast.walk(target.node):
                if not isinstance(inner, ast.FunctionDef) or inner is target.node or not inner.args.args:
                    continue
                first = inner.args.args[0].arg
                for x in ast.walk(inner):
                    if isinstance(x, ast.Call) and isinstance(x.func, ast.Name) and x.func.id in ('setattr', 'delattr') and x.args and isinstance(x.args[0], ast.Name) and x.args[0].id == first:
                        writes.append(x)
                    elif isinstance(x, ast.Attribute) and not isinstance(x.ctx, ast.Load) and isinstance(x.value, ast.Name) and x.value.id == first:
                        writes.append(x)
                    elif isinstance(x, ast.Attribute) and x.attr == '__dict__' and isinstance(x.value, ast.Name) and x.value.id == first:
                        writes.append(x)
            tests = []
            for inner in ast.walk(target.node):
                if isinstance(inner, (ast.If, ast.IfExp, ast.While)):
                    for x in ast.walk(inner.test):
                        if isinstance(x, ast.Call) and isinstance(x.func, ast.Name) and x.func.id in ('getattr', 'hasattr') and x.args and isinstance(x.args[0], ast.Name):
                            tests.append(x)
                        elif isinstance(x, ast.Attribute) and isinstance(x.value, ast.Name) and isinstance(x.ctx, ast.Load):
                            tests.append(x)
            if writes and not tests:
                ctx.undecided(rule, fi, st + ': ' + unparse(writes[0])[:70], 'the wrapper writes on the shared descriptor object; cannot see whether what it writes decides anything', fi.node.lineno, clause='a')
            elif writes:
                ctx.violation(rule, fi, st + ': ' + unparse(writes[0])[:70], 'the wrapper keeps state in the descriptor object, which all packets of the class share: while the call for one packet runs (or after it), the same attribute of another packet reads something else than its own forced / computed value', fi.node.lineno, clause='a', witness=True)
            else:
                ctx.holds(rule, fi, st, 'the wrapper writes nothing on the descriptor', fi.node.lineno, clause='a')


def check(ctx):
    check_protocol_methods_keep_no_state_on_the_descriptor(ctx)
    check_described_names(ctx)
    check_auto(ctx)
    check_copies_keep_state(ctx)
    check_slots(ctx)
    check_generated_sync(ctx)
    check_constructor(ctx)
    from ..model import check_init_writes_own_keyword_only
    check_init_writes_own_keyword_only(ctx, 'R13-constructor', clause='d')
    check_class_tables_are_the_builders(ctx)
    # Round 5: the collected sync hooks are the hooks of their own fields -- a wrapper made in the
    # collecting loop that reads the loop's variables late makes every hook sync the last field
    from .c08 import check_late_binding
    check_late_binding(ctx, rule='R13-hooks', clause='e')
    for d in D.get_drivers(ctx.repo):
        ctx.unit('drivers')
        D.check_hooks_order(ctx, 'R13-hooks', d)
    ctx.floor('drivers analysed', ctx.units.get('drivers', 0), 4)
    ctx.floor('obligations', len(ctx.obs), 25)
    ctx.trust(*ASSUMPTIONS)
