#!/usr/bin/env python3
"""Regenerates /verif/MANIFEST.json from the table below; a property is listed
under checks when its checker module bistat/rules/<id>.py exists, otherwise under
not_applicable with the reason given here."""
import json
import os

HERE = os.path.dirname(os.path.dirname(os.path.abspath(__file__)))

COMMON_NOTE = ('Trusted base: the CPython ast parser; the frozen table of standard-library semantics printed in the '
               'evidence file (struct, int.from_bytes/to_bytes, bytes.find, re, bisect, groupby, os.replace, importlib); '
               'the walker/normalisers of /verif/bistat. Decides the named structural clauses on all paths of the current '
               'source; does NOT decide the value-level behaviour listed under "Not decided" in DESIGN.md section 4.')

P = {
 'C01': ('R1 inverse-pair agreement + driver symmetry + fill/overlap flow',
         'Static: every co-installed (unpack, pack) strategy pair consumes/emits the same bytes with the same codec parameter expressions; all four drivers visit get_fields() once, in order; Fragments() fill resolves to b\'.\'; overlap raises reach the PacketError wrapper. A necessary condition of the round trip, checked on all paths; byte-for-byte equality over all inputs is not decided.',
         '4 C01'),
 'C02': ('init/pack path summaries, in-order append discipline, assert_consistency shape',
         'Static: Packet.__init__ feeds every field.init with the one defaults dict and every init stores defaults[field_name] when present; pack strategies write only at the cursor through append/extend or a child pack; assert_consistency returns True only on the non-raising path. Value equality of the re-parse is not decided.',
         '4 C02'),
 'C03': ('R2 driver sibling agreement on template ASTs with typed holes',
         'Static: the generated-code templates of codegen.py are parsed with typed holes and compared with the generic loop of packet.py (skeleton, handlers, hooks, per-field call, cursor update); groupby partitions are order-preserving and exhaustive; struct-block format, prefix and advance agree with Int._compile; option plumbing is checked by argument binding. Equality of results over all inputs is not decided.',
         '4 C03'),
 'C04': ('R4 strict-decode dataflow: guard-dominates-store over path summaries',
         'Static: on every non-raising path of every function that can sit behind .unpack (method values assigned in _compile are followed) and in the struct template, each raw[lo:hi] that reaches a stored packet attribute is decoded by a length-strict decoder, or carries the guard len(slice) == hi-lo on the path, or is bounded by a guarded search result. For the built-in field kinds this guard is the property.',
         '4 C04'),
 'C05': ('R9 finite tables + finite fold of the endianness expression + R1 codec parameter agreement',
         'Static: struct-code table (standard sizes, case = signedness, prefixes < > only), exhaustive fold of the is_bigendian expression over the five spellings x sys.byteorder, same width/byteorder/signed expressions on both sides of the arbitrary-width codec, packed value flows unmodified into a strict encoder. The arithmetic of struct/int.to_bytes is a trusted table.',
         '4 C05'),
 'C06': ('path summaries of the 5 Data unpack strategies in the linear normal form',
         'Static: strategy selection is exhaustive; sized variants store raw[offset:offset+N], return offset+N under an exact-length guard; marker variants search a buffer cut at the cursor with a first-occurrence primitive, and the include/consume arithmetic per flag path equals the declared one; Data.pack emits value + excluded literal delimiter.',
         '4 C06'),
 'C07': ('R8 bit-algebra normal form on Bits._compile / unpack / pack',
         'Static: shift assigned before the running sum is incremented, mask == ((1<<w)-1) << shift, byte-boundary raise dominates the shared Int, unpack == (I & mask) >> shift, pack == ((v << shift) & mask) | (I & ~mask) (confinement normal form), shared Int unsigned/big-endian and packed once at the last member.',
         '4 C07'),
 'C08': ('path/loop summaries of Sequence, Optional, Ref and the two normalisers',
         'Static: the list is stored before count/when/until are evaluated and the same list is appended to; when-false returns the incoming offset with no element unpack; count loop is range(count); until is evaluated once after each element with the first element unconditional; Optional/Ref control shapes; no closure captures a loop variable.',
         '4 C08'),
 'C09': ('R9 operator->dunder table + operand-order and stack-discipline consistency',
         'Static: every operator of the category tables is installed under the special-method name Python uses; reflected methods swap operands; compile_expr emits postfix consistent with the namedtuple field order; exec_compiled_expr push/pop/operand order are mutually consistent; collectors keep order; no try on the evaluation path.',
         '4 C09'),
 'C10': ('sibling agreement Move.unpack vs Move.pack + congruence normaliser for pad formulas',
         'Static: for each of the 6 (is_alignment, reference) cases the new-cursor expression of Move.unpack and Move.pack is identical up to offset <-> fragments.current_offset; every alignment expression has the shape E % a with E == -(cursor-start) (mod a); the 3 per-element pad sites of Sequence agree; all four drivers record the entry cursor as innermost-pkt-pos.',
         '4 C10'),
 'C11': ('R8 interval normal forms on Fragments.insert / tobytes',
         'Static: cursor := position + len(string) on every non-raising path; one subscript store keyed by position is the only mutation of the chunk map; insertion index == bisect(begins, position); collision guards equal the exact overlap predicates under the facts bisect provides; tobytes walks chunks in position order emitting fill*(gap) then the chunk. The sparse-array behaviour over all histories is an inductive invariant and is not decided.',
         '4 C11'),
 'C12': ('R7 error discipline + R2 driver sibling agreement',
         'Static: in all four drivers every field call is inside the try, handler roles/arguments/phase flags/cursor expressions are the required ones, the cursor advances only with a field return value, Packet.unpack rejects non-bytes first and returns None under silent in every handler, PacketError stack shapes agree and __str__ is total (format arity).',
         '4 C12'),
 'C13': ('R5 run-time statelessness (mod/ref effect analysis over the call graph) + R6 freshness lattice',
         'Static: no function reachable at run time writes to an object that outlives the call (field, descriptor, prototype, module global, class attribute, closure cell, mutable default); every value stored into a packet by init/unpack is user-supplied, immutable, a deepcopy/clone or freshly built; pack writes only scratch slots. Absence of shared writes makes schedule enumeration unnecessary for the built-in fields; effects inside user callbacks are not decided.',
         '4 C13'),
 'C14': ('R14 context independence: raw is read only relative to the cursor',
         'Static: in run-time unpack code raw is used only as raw[lo:hi] with lo == cursor + non-negative term, as len(raw) under the read-to-end guard, or passed on together with the cursor; regex search runs on a buffer cut at the cursor; every child unpack receives the current cursor; drivers record the entry offset.',
         '4 C14'),
 'C15': ('R10 cache protocol: hash-covers-writes and validate-before-install by def-use + path order',
         'Static on CodeGenerator.generate_code: every operand of the cache-file write is a constant, the cookie line or an input of the hash; on every path to the installation of module.pack_impl/unpack_impl the module was cookie-verified after its last load; bytecode path derived from the module path; templates are closed over their own imports. Histories across processes are not enumerated: the rules are the protocol conditions that make the outcome history-independent.',
         '4 C15'),
 'C16': ('R10 cache protocol: atomic publish, tolerant load, verify-after-reload, race-tolerant file operations',
         'Static necessary conditions of crash/concurrency safety of the code cache: no in-place open(path, "w") of the path that is later loaded (temp + os.replace accepted), every load inside a try whose handler covers Exception, cookie verified after every (re)load, makedirs(exist_ok=True), remove tolerant of a vanished file. Interleavings and crash points are not enumerated.',
         '4 C16'),
 'C17': ('R13 descriptor typestate + slot flow + hook order in all four drivers',
         'Static: Auto.__set__ clears the enabled flag and writes the real slot, __delete__ sets it, __get__ defaults it to True and returns func(instance) or the real slot; sync_before_pack copies what __get__ returns; the flag name reaches __slots__, the descriptor name leaves them; hooks run before the first field pack / after the last field unpack in all four drivers; the constructor routes the keyword through setattr.',
         '4 C17'),
 'C18': ('R12 regex construction discipline: taint through re.escape, maybe-Any sinks, width agreement',
         'Static: bytes that come from field values or markers reach a pattern only through re.escape; the assembled pattern is prefixed (?s) and matched with match/search; a value that may be an Any placeholder reaches no value-requiring sink unguarded; Any widths agree with the unpack widths; holes render as (?:.{n}). Language inclusion of the generated regex is not decided.',
         '4 C18'),
 'C19': ('constructor folds with omitted arguments + init path summaries + R6 freshness',
         'Static: with the argument omitted each constructor folds to the documented default (0, NUL*n, b\'\', [], None, deepcopy of the prototype; callable prototype requires a default); every init stores defaults[field_name] if present else the copied/cloned default; Packet.__init__ visits every field once.',
         '4 C19'),
 'C20': ('R11 definite assignment of field attributes + shape of __eq__/__repr__',
         'Static: __eq__ guards on isinstance(other, self.__class__), covers all get_fields() with no break/slice, compares the same name on both sides, returns True only after the loop; no contradicting __ne__/__hash__; every name read by __eq__/__repr__ is either read with a default or assigned on every path of init and of every unpack strategy of every field class that can appear in get_fields().',
         '4 C20'),
}


def main():
    checks, na = [], []
    for pid in sorted(P):
        technique, text, ref = P[pid]
        if os.path.exists(os.path.join(HERE, 'bistat', 'rules', pid.lower() + '.py')):
            checks.append({
                'property_id': pid,
                'quick_cmd': './check %s --tier quick' % pid,
                'thorough_cmd': './check %s --tier thorough' % pid,
                'evidence_file': '/verif/evidence/%s.json' % pid,
                'replay_cmd_template': './check %s --replay {path}' % pid,
                'engine': 'bistat',
                'level_claimed': {'category': 'other', 'text': text, 'design_ref': 'DESIGN.md section ' + ref},
                'level_note': COMMON_NOTE,
                'technique': 'static analysis (ast): ' + technique,
            })
        else:
            na.append({'property_id': pid, 'reason': 'static checker designed (DESIGN.md section %s) but not built yet in this snapshot' % ref})
    m = {
        'version': 1,
        'setup_cmd': 'true',
        'hooks': {
            'guard': 'BISTURI_VERIF',
            'enable': 'none needed: the checks are static and read /repo/bisturi/*.py as source; no instrumentation exists in /repo',
            'baseline_off_cmd': 'cd /repo && /venv/bin/python -m pytest -ra -q -p no:cacheprovider --timeout=900 --continue-on-collection-errors',
            'source_commits': [],
            'add_only': True,
        },
        'engines': [{
            'name': 'bistat',
            'path': '/verif/bistat',
            'serves_properties': [c['property_id'] for c in checks],
            'kind_free_text': 'repository-specific static analyser (python ast): symbolic path summaries, linear/congruence/bit normalisers, method-value strategy table, template ASTs of the generated code, mod/ref effects; never imports or runs bisturi',
        }],
        'checks': checks,
        'not_applicable': na,
        'notes': 'Exit 0 = every obligation holds (or is a listed known finding, printed as KNOWN-FINDING); exit 1 + VIOLATION line = a violation not listed in known_findings.json; exit 2 + ANALYSIS-ERROR = the analysis cannot follow the code (never a silent pass). Thorough = quick at deeper inlining/path bounds plus the self-test corpus (seeded variants must be caught, benign variants must stay silent) run on scratch copies outside /repo.',
    }
    with open(os.path.join(HERE, 'MANIFEST.json'), 'w') as f:
        json.dump(m, f, indent=1)
    print('checks:', [c['property_id'] for c in checks], 'not_applicable:', [n['property_id'] for n in na])


if __name__ == '__main__':
    main()
