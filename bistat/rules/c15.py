"""C15 -- a class behaves per its current declaration whatever the code cache holds.

Rule family R10 on CodeGenerator.generate_code (def-use + path order):

 (H) hash covers writes: every operand of the text written to (or executed as) the
     cache module is a constant, the cookie line, or an input of the hash that
     produces the cookie -- so equal cookies mean equal code;
 (D) the cookie line embeds this run's digest under the attribute name that the
     verification reads;
 (V) validate-before-install: on every path to ``pkt_class.pack_impl = module...``
     the module was cookie-verified after its (re)load on that path, or was built
     in memory from this run's code;
 (O) on a mismatch the new text is written / built before the module is used;
 (P) any bytecode file removed is derived from the cache module's own path
     (module.__cached__ / cache_from_source(path)), not a made-up name;
 (E) the generated code is closed: free names of the templates are parameters,
     builtins, names assigned in the driver or names imported by the generated
     module's own import block -- behaviour is a function of the text and of the
     class's own get_fields().
Histories across processes are not enumerated: V makes the outcome independent of them.

Round 4: functions installed from a per-process table; nothing but module dunders is stored
into the generated module.

Round 5: (W) a lossy errors= handler on the cache file makes the file differ from the hashed
text.

Round 6: imports are judged per generated half; pathlib / str wrappers around a path are looked
through; the atomic-publish clause (A) is included.
Round 7: clause T (a cache file that does not import is regenerated) also here; generated
module-level helpers called by name; module-level string constants are constant module text.
Round 8: the protocol is read as python -O reads it; a generated part the cookie covers is written
on every path that writes the module.
Round 9: a function is installed from the re-loaded module under the same conditions as after
generating; no class-level table keeps modules that came from load_module(); no installed wrapper
looks the generated function up in such a module at call time.
"""
import ast
import builtins

from .. import Undecided
from ..expr import canon, unparse, call_name
from ..cache import CacheModel, concat_operands, strip_encode
from ..model import stmt_text
from .c16 import check_protocol, foreign_operands, is_digest, hash_inputs

EXPLANATION = __doc__
LEVEL_RULE = 'one obligation per (clause, event) of generate_code over all its paths, and per template for closedness'
ASSUMPTIONS = [
    'sha1 collisions are ignored',
    'importlib validates a .pyc by the source mtime (seconds) and size only: the cookie comparison is the only content check',
    'the import block of the generated module is a constant string',
]


def check_hash_covers_generated_code(ctx, rule='R10-hash-covers-text'):
    """the cookie that decides whether a cached module is reused covers every non-constant part
    of the module text (the generated drivers with their struct formats and sizes): otherwise an
    edited declaration runs the code generated for the previous one"""
    model = CacheModel(ctx.repo, max_paths=max(ctx.max_paths, 65536))
    fi = model.fi
    seen = set()
    n = 0
    for p in model.paths:
        evs = model.events(p)
        for ev in evs:
            if ev['ev'] == 'write':
                src = ev['arg']
            elif ev['ev'] == 'exec':
                code = ev['code']
                src = code.args[0] if isinstance(code, ast.Call) and call_name(code) == 'compile' and code.args else code
            else:
                continue
            for op in concat_operands(src):
                st = 'module text operand %s' % short_op(op)
                if st in seen:
                    continue
                seen.add(st)
                n += 1
                if not foreign_operands(model, p, evs, op):
                    ctx.holds(rule, fi, st, 'constant, cookie line or input of the hash', ev['eff'].lineno, clause='H')
                else:
                    ctx.violation(rule, fi, st, 'this part of the cache module is not covered by the cookie: after the declaration is edited the module generated for the old declaration (old struct formats and sizes) is reused', ev['eff'].lineno, clause='H')
    return n


def check_hashed_parts_are_written(ctx, model):
    """Round 8.  a generated part that the cookie covers is written on every path that writes the
    module.  A part that is hashed whatever the options say, but written only under an option,
    gives two configurations one cookie for two different files"""
    fi = model.fi
    seen_cov = set()
    for p in model.paths:
        evs = model.events(p)
        hin = hash_inputs(model, evs)
        for ev in evs:
            if ev['ev'] != 'write':
                continue
            written = {canon(strip_encode(op)) for op in concat_operands(ev['arg'])}
            for h_ in hin:
                if h_ in written or h_ in seen_cov:
                    continue
                if not (('def ' in h_ or '_code' in h_ or 'render' in h_) and not h_.startswith(("'", '"'))):
                    continue
                if any(h_ in w_ for w_ in written):
                    continue
                seen_cov.add(h_)
                ctx.violation('R10-hash-covers-text', fi, 'hashed but not written on path [%s]: %s' % ('; '.join(p.guard_texts())[:80], h_[:80]),
                              'the cookie covers a generated part that this path does not write into the file: whether the part is written depends on an option the cookie does not see, so a class declared with the other option value accepts the file and finds the function missing (or runs without it)', ev['eff'].lineno, clause='H', witness=True)
    if not seen_cov:
        ctx.holds('R10-hash-covers-text', fi, 'every generated part the cookie covers is written wherever the module is written', 'the cookie tells apart every two files the generator can write', fi.node.lineno, clause='H')


def check_install_conditions_agree(ctx, model, rule='R10-validate-before-install'):
    """Round 9.  "reusing a matching cached module never changes behaviour": a function is
    installed from the re-loaded module under exactly the conditions under which it is installed
    from the module generated in this run (the generate_for_* option, the class not bringing its
    own pack_impl / unpack_impl).  A cache hit that skips one of them replaces, on every later
    run, what the first run left in place"""
    import re
    fi = model.fi
    sig = {}
    for p in model.paths:
        evs = model.events(p)
        gts = p.guard_texts()
        for ev in evs:
            if ev['ev'] != 'install' or ev['attr'] not in ('pack_impl', 'unpack_impl'):
                continue
            attr = ev['attr']
            m = next((n for n in ast.walk(ev['value']) if model.sym(n)), None) if ev['value'] is not None else None
            kind = model.kind(m) if m is not None else None
            if kind not in ('load', 'mem'):
                continue
            pat = re.compile(r'(?<![a-z])%s\b|generate_for_%s\b' % (attr, attr.split('_')[0]))
            rel = frozenset(g for g in gts if pat.search(g))
            sig.setdefault((attr, kind), set()).add(rel)
    for attr in ('pack_impl', 'unpack_impl'):
        a, b = sig.get((attr, 'load')), sig.get((attr, 'mem'))
        if not a or not b:
            continue
        st = 'install %s: conditions on a cache hit %s / after generating %s' % (attr, sorted(sorted(x) for x in a)[0][:3], sorted(sorted(x) for x in b)[0][:3])
        if a == b:
            ctx.holds(rule, fi, st[:200], 'the same conditions whether the module was re-loaded or generated in this run', fi.node.lineno, clause='V')
        else:
            # compared by what the conditions read, not by how they are spelled
            def reads(side):
                return {t for x in side for g in x for t in re.findall(r'[A-Za-z_][A-Za-z_0-9]*(?:\.[A-Za-z_][A-Za-z_0-9]*)+', g)}
            only_b = sorted(reads(b) - reads(a))
            only_a = sorted(reads(a) - reads(b))
            if only_a or only_b:
                ctx.violation(rule, fi, st[:300], 'the function of a re-loaded module is installed under other conditions (%s) than the function generated in this run: with a matching cache the class behaves differently from the first run (an own %s of the class is replaced, or kept, depending on the cache)' % (
                    ('not asked on a cache hit: %s' % only_b[0][:80]) if only_b else ('asked only on a cache hit: %s' % only_a[0][:80]), attr), fi.node.lineno, clause='V', witness=True)
            else:
                ctx.undecided(rule, fi, st[:300], 'the conditions are combined differently on the two sides', fi.node.lineno, clause='V')


def check(ctx):
    repo = ctx.repo
    model = CacheModel(repo, max_paths=max(ctx.max_paths, 65536))
    fi = model.fi
    ctx.unit('functions')
    # Round 7: 'T' -- whatever the cache contains, a file that does not import (torn, foreign) is regenerated, not fatal
    r = check_protocol(ctx, model, 'VAT')
    check_install_conditions_agree(ctx, model)
    seen = set()

    def once(rule, st):
        if (rule, st) in seen:
            return False
        seen.add((rule, st))
        return True

    nw = 0
    cookie_attr = set()
    for p in model.paths:
        for g in model.cookie_guards(p):
            cookie_attr.add(g[1])
    check_hashed_parts_are_written(ctx, model)
    for p in model.paths:
        evs = model.events(p)
        hin = hash_inputs(model, evs)
        for ev in evs:
            line = ev['eff'].lineno
            texts = []
            if ev['ev'] == 'write':
                texts.append(('written', ev['arg']))
            elif ev['ev'] == 'exec':
                code = ev['code']
                src = code.args[0] if isinstance(code, ast.Call) and call_name(code) == 'compile' and code.args else code
                texts.append(('executed', src))
            for what, src in texts:
                for op in concat_operands(src):
                    st = '%s text operand %s' % (what, short_op(op))
                    if not once('R10-hash-covers-text', st):
                        continue
                    nw += 1
                    if not foreign_operands(model, p, evs, op):
                        ctx.holds('R10-hash-covers-text', fi, st, 'constant, cookie line or input of the hash', line, clause='H')
                    else:
                        ctx.violation('R10-hash-covers-text', fi, st, 'this part of the cache module is not covered by the cookie: two declarations that differ only here share a cookie and the stale module is reused', line, clause='H')
                    # (D)
                    if isinstance(op, ast.JoinedStr) and any(isinstance(v, ast.FormattedValue) and is_digest(model, v.value) for v in op.values):
                        lit = ''.join(str(v.value) if isinstance(v, ast.Constant) else str(v.value.value) if isinstance(v.value, ast.Constant) and v.conversion == -1 and v.format_spec is None else '' for v in op.values)
                        name = lit.split('=')[0].strip()
                        if once('R10-cookie-line', name):
                            if cookie_attr and name not in cookie_attr:
                                ctx.violation('R10-cookie-line', fi, 'cookie line %r' % lit, 'the cookie is written as %s but verified as %s' % (name, sorted(cookie_attr)), line, clause='D')
                            else:
                                ctx.holds('R10-cookie-line', fi, 'cookie line %r' % lit, 'embeds this run\'s digest under the verified name', line, clause='D')
            # (W) the file holds the text that was hashed: a lossy error handler on the text file
            # drops or replaces what the locale's encoding cannot represent -- identifiers included --
            # while the cookie line still matches
            if ev['ev'] == 'open':
                c_ = ev['call']
                errs = next((k.value for k in c_.keywords if k.arg == 'errors'), c_.args[4] if len(c_.args) > 4 else None)
                st = 'open(..., errors=%s)' % (canon(errs) if errs is not None else None)
                if errs is not None and once('R10-written-is-hashed', st):
                    if isinstance(errs, ast.Constant) and errs.value in ('strict', None):
                        ctx.holds('R10-written-is-hashed', fi, st, 'an unencodable character fails the write, nothing is published', line, clause='H')
                    elif isinstance(errs, ast.Constant):
                        ctx.violation('R10-written-is-hashed', fi, st, 'characters the default encoding cannot represent are silently dropped / replaced in the cache file (also inside identifiers) while the cookie, computed from the real text, still matches: a later run installs code that differs from the generated one', line, clause='H', witness=True)
                    else:
                        ctx.undecided('R10-written-is-hashed', fi, st, 'error handler of the cache file is not a constant', line, clause='H')
            # (P)
            if ev['ev'] == 'remove':
                st = stmt_text(ev['eff'].node) + ' [path: %s]' % path_origin(ev['path'])
                if once('R10-bytecode-path', st):
                    pth = ev['path']
                    # pathlib.Path(x) / str(x) / os.fspath(x) name the same file as x
                    while isinstance(pth, ast.Call) and (call_name(pth) or '').split('.')[-1] in ('Path', 'PurePath', 'str', 'fspath') and len(pth.args) == 1 and not pth.keywords:
                        pth = pth.args[0]
                    ok = False
                    if isinstance(pth, ast.Attribute) and pth.attr == '__cached__' and model.sym(pth.value):
                        ok = True
                    elif isinstance(pth, ast.Call) and (call_name(pth) or '').endswith('cache_from_source') and pth.args and canon(pth.args[0]) in r['load_paths']:
                        ok = True
                    elif any(model.sym(n) and model.kind(n) == 'tmp' for n in ast.walk(pth)):
                        ok = True
                    elif isinstance(pth, ast.IfExp):
                        # module.__cached__ if ... else <other>
                        alts = [pth.body, pth.orelse]
                        ok = all((isinstance(a, ast.Attribute) and a.attr == '__cached__') or ((call_name(a) or '').endswith('cache_from_source')) for a in alts)
                    if ok:
                        ctx.holds('R10-bytecode-path', fi, st, 'derived from the cache module\'s own path', line, clause='P')
                    else:
                        ctx.violation('R10-bytecode-path', fi, st, 'the file removed as "the stale bytecode" is not derived from the cache module path (a bare name in the working directory): the stale .pyc next to the module survives and is trusted by the reload', line, clause='P')
    # (E') nothing but the import block, the cookie line and the two drivers is written at module
    # level: the module object is shared by every same-named class through sys.modules
    seen_ops = set()
    _TEMPLATES[:] = repo.templates()
    for p in model.paths:
        evs = model.events(p)
        for ev in evs:
            if ev['ev'] not in ('write', 'exec'):
                continue
            if ev['ev'] == 'exec':
                code = ev['code']
                src = code.args[0] if isinstance(code, ast.Call) and call_name(code) == 'compile' and code.args else code
            else:
                src = ev['arg']
            for op in concat_operands(src):
                k = canon(op)
                if k in seen_ops:
                    continue
                seen_ops.add(k)
                kind = module_level_kind(op)
                st = 'module text operand %s' % short_op(op)
                if kind is None:
                    ctx.violation('R10-generated-code-closed', fi, st, 'extra module-level code is written into the generated module: objects defined there live in the one module namespace that every same-named class shares (sys.modules), so a later definition silently replaces them under earlier classes', ev['eff'].lineno, clause='E')
                else:
                    ctx.holds('R10-generated-code-closed', fi, st, kind, ev['eff'].lineno, clause='E')
    ctx.unit('text_operands', nw)
    # (H) the hash has inputs at all and they are the generated codes
    any_hash = False
    for p in model.paths:
        evs = model.events(p)
        if any(e['ev'] == 'hash-update' for e in evs):
            any_hash = True
            break
    if not any_hash:
        ctx.violation('R10-hash-covers-text', fi, 'cookie hash', 'no text is fed to the hash: every declaration gets the same cookie', fi.node.lineno, clause='H')

    check_templates_closed(ctx, repo)
    check_module_namespace(ctx, model)
    ctx.floor('paths of generate_code', len(model.paths), 8)
    ctx.floor('text operands of the cache module', nw, 3)
    ctx.floor('install provenances', r['installs'], 2)
    ctx.trust(*ASSUMPTIONS)


_TEMPLATES = []


MODULE_DUNDERS = ('__file__', '__name__', '__package__', '__loader__', '__spec__', '__cached__', '__path__', '__builtins__')


def check_module_namespace(ctx, model=None, rule='R10-generated-code-closed'):
    """the namespace of the generated module holds what its text defines and nothing else: the
    module object is shared, through sys.modules, by every same-named class with the same text,
    so an object of *this* class parked there (a field table, the class itself) is replaced by the
    next definition under the functions already installed in earlier classes"""
    from ..cache import CacheModel
    repo = ctx.repo
    model = model or CacheModel(repo, max_paths=max(ctx.max_paths, 65536))
    fi = model.fi
    seen = set()
    for p in model.paths:
        for e in p.all_effects():
            tgt = name = None
            if e.kind == 'store_attr' and model.sym(e.obj) and model.kind(e.obj) in ('load', 'mem'):
                tgt, name = e.obj, e.name
            elif e.kind == 'setattr' and model.sym(e.obj) and model.kind(e.obj) in ('load', 'mem'):
                tgt, name = e.obj, (e.name.value if isinstance(e.name, ast.Constant) else canon(e.name))
            elif e.kind == 'store_sub':
                o = e.obj
                inner = o.value if isinstance(o, ast.Attribute) and o.attr == '__dict__' else (o.args[0] if isinstance(o, ast.Call) and call_name(o) == 'vars' and o.args else None)
                if inner is not None and model.sym(inner) and model.kind(inner) in ('load', 'mem'):
                    tgt, name = inner, (e.name.value if isinstance(e.name, ast.Constant) else canon(e.name))
            if tgt is None or name in MODULE_DUNDERS:
                continue
            st = stmt_text(e.node)[:120]
            if st in seen:
                continue
            seen.add(st)
            ctx.violation(rule, fi, st, 'an object of this class is stored in the namespace of the generated module: same-named classes with the same generated text share that module, the next definition replaces the object under the functions already installed in the earlier class', e.lineno, clause='E', witness=True)
    if not seen:
        ctx.holds(rule, fi, 'nothing but module attributes (__file__ ...) is stored into the generated module', 'its namespace is exactly what its text defines', fi.node.lineno, clause='E')


def module_level_kind(op):
    """what a piece of the generated module text is, or None when it is something else"""
    if isinstance(op, ast.Constant) and isinstance(op.value, str):
        v = op.value.strip()
        if not v:
            return 'empty'
        try:
            t = ast.parse(__import__('textwrap').dedent(op.value))
        except SyntaxError:
            return None
        if all(isinstance(s, (ast.Import, ast.ImportFrom)) for s in t.body):
            return 'import block'
        return None
    if isinstance(op, ast.JoinedStr):
        return 'cookie line'
    if isinstance(op, ast.BinOp) and isinstance(op.op, ast.Mod) and isinstance(op.left, ast.Constant) and isinstance(op.left.value, str):
        txt = op.left.value
        if 'def ' not in txt and 'COOKIE' in txt:
            return 'cookie line'
        for t in _TEMPLATES:
            if t.text == txt and t.tree is not None:
                defs = [s_ for s_ in t.tree.body if isinstance(s_, ast.FunctionDef)]
                other = [s_ for s_ in t.tree.body if not isinstance(s_, (ast.FunctionDef, ast.Import, ast.ImportFrom))]
                if defs and not other and all(d.name in ('pack_impl', 'unpack_impl') for d in defs):
                    return 'driver %s' % ', '.join(d.name for d in defs)
        return None
    return None


def path_origin(pth):
    if isinstance(pth, ast.Attribute) and pth.attr == '__cached__':
        return 'module.__cached__'
    if isinstance(pth, ast.Call):
        return (call_name(pth) or 'call') + '(...)'
    if isinstance(pth, ast.BinOp):
        tail = pth.right if isinstance(pth.op, ast.Add) else None
        return 'module name + %s (relative to the working directory)' % (canon(tail) if tail is not None else '?')
    return type(pth).__name__


def short_op(op):
    t = canon(op)
    if len(t) <= 90:
        return t
    if isinstance(op, ast.BinOp) and isinstance(op.op, ast.Mod) and isinstance(op.left, ast.Constant):
        first = [l for l in op.left.value.split('\n') if l.strip().startswith('def ')]
        return '<template %s>' % (first[0].strip() if first else op.left.value.strip()[:40])
    if isinstance(op, ast.Constant):
        return '<constant %r...>' % op.value.strip()[:40]
    return t[:87] + '...'


def check_templates_closed(ctx, repo):
    rule = 'R10-generated-code-closed'
    # import block: constants of generate_code that contain import statements
    imported = set()
    cg = repo.cls('CodeGenerator').methods['generate_code']
    # ... or module-level constants that generate_code names
    used = {x.id for x in ast.walk(cg.node) if isinstance(x, ast.Name) and isinstance(x.ctx, ast.Load)}
    mod_consts = [st_.value for st_ in repo.modules['codegen']['tree'].body if isinstance(st_, ast.Assign) and len(st_.targets) == 1 and isinstance(st_.targets[0], ast.Name)
                  and st_.targets[0].id in used and isinstance(st_.value, ast.Constant) and isinstance(st_.value.value, str)]
    for n in list(ast.walk(cg.node)) + mod_consts:
        if isinstance(n, ast.Constant) and isinstance(n.value, str) and 'import ' in n.value and 'def ' not in n.value:
            # the import block of the module: text made of import statements only.  What a driver
            # template imports in its own text serves that driver (and the blocks spliced into it),
            # not the other half, which may be generated without it
            head = n.value
            try:
                t = ast.parse(__import__('textwrap').dedent(head))
            except SyntaxError:
                continue
            for s in t.body:
                if isinstance(s, (ast.Import, ast.ImportFrom)):
                    for a in s.names:
                        imported.add((a.asname or a.name).split('.')[0])
    driver_locals = {'pkt', 'fragments', 'raw', 'offset', 'k', 'fields', 'name', 'e', 'sync_methods'}
    b = set(dir(builtins))
    n = 0
    block_assigned = set()
    for t in repo.templates():
        if t.tree is not None and not t.defines():
            block_assigned |= {x.id for x in ast.walk(t.tree) if isinstance(x, ast.Name) and isinstance(x.ctx, ast.Store)}
    # what a block spliced into a driver may take for granted: the names every driver binds itself
    # (parameters, assignments, handler names) plus the parameters that tell the two drivers apart
    bound_per_driver = []
    for t in repo.templates():
        if t.tree is not None and t.defines():
            bnd = {x.id for x in ast.walk(t.tree) if isinstance(x, ast.Name) and isinstance(x.ctx, ast.Store)}
            for f in ast.walk(t.tree):
                if isinstance(f, ast.FunctionDef):
                    bnd |= {x.arg for x in f.args.args + f.args.kwonlyargs} | ({f.args.kwarg.arg} if f.args.kwarg else set()) | ({f.args.vararg.arg} if f.args.vararg else set())
                if isinstance(f, ast.ExceptHandler) and f.name:
                    bnd.add(f.name)
            bound_per_driver.append(bnd)
    if bound_per_driver:
        driver_locals = set.intersection(*bound_per_driver) | {'fragments', 'raw', 'offset', 'sync_methods', 'name'}
    driver_imports = set()
    for t in repo.templates():
        if t.tree is not None and t.defines():
            for s_ in ast.walk(t.tree):
                if isinstance(s_, (ast.Import, ast.ImportFrom)):
                    for a in s_.names:
                        driver_imports.add((a.asname or a.name).split('.')[0])
    for t in repo.templates():
        if t.tree is None:
            ctx.undecided(rule, t.func, 'template at line %d' % t.lineno, 'does not parse with holes: %s' % t.error, t.lineno)
            continue
        n += 1
        assigned = {x.id for x in ast.walk(t.tree) if isinstance(x, ast.Name) and isinstance(x.ctx, ast.Store)}
        params = set()
        for f in ast.walk(t.tree):
            if isinstance(f, ast.FunctionDef):
                a = f.args
                params |= {x.arg for x in a.args + a.kwonlyargs}
                if a.vararg: params.add(a.vararg.arg)
                if a.kwarg: params.add(a.kwarg.arg)
            if isinstance(f, ast.ExceptHandler) and f.name:
                assigned.add(f.name)
        own_imports = set()
        for s in ast.walk(t.tree):
            if isinstance(s, (ast.Import, ast.ImportFrom)):
                for a in s.names:
                    own_imports.add((a.asname or a.name).split('.')[0])
        free = set()
        for x in ast.walk(t.tree):
            if isinstance(x, ast.Name) and isinstance(x.ctx, ast.Load) and not x.id.startswith('__HOLE_'):
                if x.id not in assigned and x.id not in params and x.id not in b and x.id not in imported and x.id not in own_imports:
                    free.add(x.id)
        is_driver = bool(t.defines())
        if not is_driver:
            free -= driver_locals
            free -= driver_imports       # a block runs inside a driver and sees what that driver's text imports
        else:
            free -= block_assigned          # names bound by the blocks spliced into the driver
        st = 'template %s@%s' % (t.func.qual.split('.')[-1], 'driver ' + ','.join(t.defines()) if is_driver else 'block')
        if free:
            ctx.violation(rule, t.func, st, 'free names %s are neither parameters, builtins, driver locals nor imported by the generated module: the generated code depends on something outside its own text -- or on a name that other generated text binds in the module namespace, which same-named classes share and the next definition rebinds under the functions already installed' % sorted(free), t.lineno, clause='E', witness=is_driver or bool(free & {'fields', 'pkt', 'k'}))
        else:
            ctx.holds(rule, t.func, st, 'closed over parameters, builtins and the generated module\'s own imports %s' % sorted(imported | own_imports), t.lineno, clause='E')
    ctx.unit('templates', n)
    ctx.floor('templates analysed', n, 6)
