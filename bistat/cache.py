"""Rule family R10: the generated-code cache protocol of codegen.py
(CodeGenerator.generate_code).  Shared by C15 and C16.

The function is walked path by path; stateful calls (hash object, loads, opens,
temp files, in-memory modules) get a unique symbol per evaluation so that the
first load and the reload are different values.  Events are then read off each
path in order and the protocol clauses are decided on them.
"""
import ast

from . import Undecided
from .expr import canon, unparse, call_name, attr_chain
from .model import stmt_text

LOAD_METHODS = ('load_module', 'exec_module')
WRITE_MODES = ('w', 'a', 'x', '+')


def tagger(call):
    f = call.func
    nm = call_name(call) or ''
    if isinstance(f, ast.Attribute) and f.attr in LOAD_METHODS:
        return 'load'
    if nm in ('importlib.import_module', '__import__', 'import_module', 'imp.load_source', 'runpy.run_path'):
        return 'load'
    if nm.endswith('sha1') or nm.endswith('sha256') or nm.endswith('md5') or nm in ('hashlib.new',):
        return 'hash'
    if nm in ('open', 'io.open', 'os.fdopen', 'codecs.open'):
        return 'open'
    if nm in ('tempfile.mkstemp', 'mkstemp', 'tempfile.NamedTemporaryFile', 'NamedTemporaryFile', 'tempfile.mktemp'):
        return 'tmp'
    if nm in ('types.ModuleType', 'ModuleType', 'imp.new_module', 'importlib.util.module_from_spec', 'module_from_spec'):
        return 'mem'
    return None


class CacheModel:
    def __init__(self, repo, max_paths=65536):
        self.repo = repo
        cg = repo.cls('CodeGenerator')
        self.fi = cg.methods.get('generate_code')
        if self.fi is None:
            raise Undecided('anchor CodeGenerator.generate_code not found')
        self.w = repo.walker(max_paths=max_paths, tag=tagger)
        # the cache protocol holds under every interpreter configuration: a cookie comparison written
        # as an assert statement does not exist under python -O / PYTHONOPTIMIZE
        self.w.strip_asserts = True
        self.paths = self.w.paths(self.fi.node, cls=cg)
        self.parents = {}
        for p in ast.walk(self.fi.node):
            for c in ast.iter_child_nodes(p):
                self.parents[id(c)] = p
        self.tab = self.w.calltab

    # --------------------------------------------------------------- helpers
    def sym(self, e):
        return isinstance(e, ast.Name) and e.id.startswith('<#')

    def kind(self, e):
        return e.id.split(' ', 1)[1][:-1] if self.sym(e) else None

    def call_of(self, e):
        return self.tab.get(e.id) if self.sym(e) else None

    def enclosing_tries(self, node):
        """[(Try, in_body)] from innermost to outermost for an AST node of the function"""
        out = []
        cur = node
        while id(cur) in self.parents:
            par = self.parents[id(cur)]
            if isinstance(par, ast.Try):
                in_body = any(cur is s for s in par.body)
                out.append((par, in_body))
            cur = par
        return out

    def handler_covers(self, node, names=('Exception', 'BaseException', None)):
        """is the node inside the body of a try with a handler that catches one of ``names``?"""
        # with contextlib.suppress(X): ...   is   try: ... except X: pass
        cur = node
        while id(cur) in self.parents:
            par = self.parents[id(cur)]
            if isinstance(par, ast.With) and any(cur is s_ for s_ in par.body):
                for item in par.items:
                    ce = item.context_expr
                    if isinstance(ce, ast.Call) and (call_name(ce) or '').split('.')[-1] == 'suppress':
                        ts = [unparse(a) for a in ce.args]
                        if any(t in names for t in ts):
                            return True, ts
            cur = par
        for tr, in_body in self.enclosing_tries(node):
            if not in_body:
                continue
            for h in tr.handlers:
                ts = [None] if h.type is None else ([unparse(x) for x in h.type.elts] if isinstance(h.type, ast.Tuple) else [unparse(h.type)])
                if any(t in names for t in ts):
                    # the handler must not re-raise unconditionally
                    if h.body and isinstance(h.body[-1], ast.Raise) and len(h.body) == 1:
                        continue
                    return True, ts
        return False, None

    def load_path_of(self, load_call):
        """the file a load call reads: SourceFileLoader(name, PATH).load_module()"""
        f = load_call.func
        if isinstance(f, ast.Attribute) and isinstance(f.value, ast.Call):
            c = f.value
            if len(c.args) >= 2:
                return c.args[1]
            for k in c.keywords:
                if k.arg in ('path', 'pathname', 'fullname') and k.arg != 'fullname':
                    return k.value
        if load_call.args:
            return load_call.args[-1]
        return None

    # ----------------------------------------------------------- path events
    def events(self, p):
        """ordered events of one path: dicts with 'ev' and details"""
        out = []
        for e in p.all_effects():
            if e.kind == 'call':
                c = e.call
                nm = call_name(c) or ''
                f = c.func
                if e.value is not None and self.sym(e.value):
                    k = self.kind(e.value)
                    out.append(dict(ev=k, sym=e.value, call=c, eff=e))
                    if k == 'hash':
                        # hashlib.sha1(data) hashes data like a first update(data)
                        data = [a for a in c.args if not (isinstance(a, ast.Constant) and isinstance(a.value, str) and nm.endswith('.new'))]
                        if nm.endswith('.new'):
                            data = c.args[1:]
                        if data:
                            out.append(dict(ev='hash-update', sym=e.value, arg=data[0], eff=e))
                    continue
                if isinstance(f, ast.Attribute) and f.attr == 'update' and self.sym(f.value) and self.kind(f.value) == 'hash':
                    out.append(dict(ev='hash-update', sym=f.value, arg=c.args[0] if c.args else None, eff=e))
                elif isinstance(f, ast.Attribute) and f.attr in ('write', 'writelines') and c.args:
                    arg = c.args[0]
                    if f.attr == 'writelines':
                        # f.writelines(parts) writes ''.join(parts)
                        arg = ast.Call(func=ast.Attribute(value=ast.Constant(value=''), attr='join', ctx=ast.Load()), args=[arg], keywords=[])
                    out.append(dict(ev='write', file=f.value, arg=arg, eff=e))
                elif nm in ('os.replace', 'os.rename', 'shutil.move') and len(c.args) >= 2:
                    out.append(dict(ev='replace', src=c.args[0], dst=c.args[1], eff=e))
                elif nm in ('os.remove', 'os.unlink') and c.args:
                    out.append(dict(ev='remove', path=c.args[0], eff=e))
                elif isinstance(f, ast.Attribute) and f.attr == 'unlink':
                    out.append(dict(ev='remove', path=f.value, eff=e))
                elif nm in ('os.makedirs', 'os.mkdir') and c.args:
                    out.append(dict(ev='makedirs', path=c.args[0], call=c, eff=e))
                elif nm in ('os.path.exists', 'os.path.isfile') and c.args:
                    out.append(dict(ev='exists', path=c.args[0], eff=e))
                elif nm == 'exec' and c.args:
                    out.append(dict(ev='exec', code=c.args[0], ns=c.args[1] if len(c.args) > 1 else None, eff=e))
            elif e.kind == 'store_attr' and e.name in ('pack_impl', 'unpack_impl') and canon(e.obj) in ('self.pkt_class',):
                out.append(dict(ev='install', attr=e.name, value=e.value, eff=e))
            elif e.kind == 'setattr' and canon(e.obj) == 'self.pkt_class':
                out.append(dict(ev='install', attr=e.name.value if isinstance(e.name, ast.Constant) and isinstance(e.name.value, str) else canon(e.name), value=e.value, eff=e))
        return out

    def cookie_guards(self, p):
        """guards of the path that compare a module's cookie with the computed one:
        list of (module expr, cookie expr, equal?)"""
        out = []
        from .expr import conj, negate
        for g, pol in p.guards:
            t = g if pol else negate(g)
            for lit in self._literals(t):
                r = self._cookie_cmp(lit)
                if r is not None:
                    out.append(r)
        return out

    def _literals(self, t):
        """conjuncts of t; for a disjunction that is false... we only need conjunction facts"""
        from .expr import conj
        return conj(t)

    def _cookie_cmp(self, lit):
        if isinstance(lit, ast.UnaryOp) and isinstance(lit.op, ast.Not):
            from .expr import negate
            lit = negate(lit.operand)
        if not (isinstance(lit, ast.Compare) and len(lit.ops) == 1 and isinstance(lit.ops[0], (ast.Eq, ast.NotEq))):
            return None
        a, b = lit.left, lit.comparators[0]
        for x, y in ((a, b), (b, a)):
            m = self._cookie_read(x)
            if m is not None:
                return (m[0], m[1], y, isinstance(lit.ops[0], ast.Eq))
        return None

    def _cookie_read(self, x):
        """x reads an attribute of a module object: getattr(M, 'NAME'[, d]) or M.NAME -> (M, NAME)"""
        if isinstance(x, ast.Call) and isinstance(x.func, ast.Name) and x.func.id == 'getattr' and len(x.args) >= 2 \
                and isinstance(x.args[1], ast.Constant):
            return x.args[0], x.args[1].value
        if isinstance(x, ast.Attribute) and self.sym(x.value):
            return x.value, x.attr
        return None


def display_elements(e):
    """the elements of a list / tuple written as a display, or as displays added together"""
    if isinstance(e, (ast.List, ast.Tuple)) and not any(isinstance(x, ast.Starred) for x in e.elts):
        return list(e.elts)
    if isinstance(e, ast.BinOp) and isinstance(e.op, ast.Add):
        a, b = display_elements(e.left), display_elements(e.right)
        if a is not None and b is not None:
            return a + b
    return None


def concat_operands(e):
    if isinstance(e, ast.BinOp) and isinstance(e.op, ast.Add):
        return concat_operands(e.left) + concat_operands(e.right)
    if isinstance(e, ast.Call) and isinstance(e.func, ast.Attribute) and e.func.attr == 'join' and len(e.args) == 1 and not e.keywords \
            and isinstance(e.func.value, ast.Constant) and e.func.value.value == '' and display_elements(e.args[0]) is not None:
        out = []
        for x in display_elements(e.args[0]):
            out.extend(concat_operands(x))
        return out
    return [e]


def strip_encode(e):
    while isinstance(e, ast.Call) and isinstance(e.func, ast.Attribute) and e.func.attr in ('encode', 'decode'):
        e = e.func.value
    return e
