"""C02 -- serialize-then-parse reproduces the packet.

 (1) Packet.__init__ calls field.init(self, defaults) for every get_fields() entry with the
     one keyword dict, and the init of every value-bearing kind stores defaults[field_name]
     when the key is present (C19 path summaries);
 (2) in-order concatenation: every pack strategy writes only through fragments.append /
     extend (at the cursor) or delegates to a child pack; fragments.insert(position, ...) in a
     pack strategy is a violation; the only assignments to fragments.current_offset outside
     Fragments are the positioning of Move.pack and the per-element pad of Sequence.pack;
     Packet.pack returns tobytes() of the Fragments it passed down;
 (3) assert_consistency re-parses self.pack() with the packet's own class, returns True
     exactly on the path where that did not raise, and False only under dont_raise;
 (4) R1 inverse-pair agreement for every co-installed strategy pair (shared with C01);
 (5) Round 5: Fragments.insert keeps its index so that an in-order append after an empty chunk
     is accepted (C11-3), and the evaluator of deferred expressions keeps nothing between
     evaluations (C09-d).
 (6) Round 7: includes the Auto typestate rule (C17-a): the before-pack hook writes the hidden
     field and nothing else, so every pack recomputes what was left automatic.
 (7) Round 8: includes the generated-codec rule of C05 (values leave the input through struct only).
Equality of the re-parsed values for all consistent assignments, and whether an assignment is
"consistent", are not decided.
"""
import ast

from .. import Undecided
from ..expr import canon, call_name, unparse
from ..model import pack_strategies, stmt_text

EXPLANATION = __doc__
LEVEL_RULE = 'one obligation per init path, per pack strategy write site, per assert_consistency path and per strategy pair clause'
ASSUMPTIONS = [
    'Fragments.append / extend insert at the cursor and advance it (C11 clauses 1 and 6)',
    'the trusted standard-library table of C04 / C05 / C06',
]

ALLOWED_CURSOR_WRITERS = {
    'Move.pack': 'positioning: the move pseudo-field sets the cursor (C10)',
    'Sequence.pack': 'per-element alignment pad (C10-d)',
}


def _is_struct_obj(repo, recv):
    from ..model import struct_object_attrs
    return canon(recv) == 'struct' or (isinstance(recv, ast.Attribute) and recv.attr in struct_object_attrs(repo))


def check_concatenation(ctx):
    repo = ctx.repo
    rule = 'C02-in-order-concatenation'
    n = 0
    for ci, fi, s in pack_strategies(repo):
        ctx.unit('pack_strategies')
        wrote = delegated = False
        for node in ast.walk(fi.node):
            if isinstance(node, ast.Call) and isinstance(node.func, ast.Attribute) and canon(node.func.value) == 'fragments':
                m = node.func.attr
                st = '[%s] %s: %s' % (ci.name, fi.qual, stmt_text(node)[:100])
                if m in ('append', 'extend'):
                    n += 1
                    wrote = True
                    ctx.holds(rule, fi, st, 'written at the cursor', node.lineno, clause='2')
                elif m == 'insert':
                    n += 1
                    ctx.violation(rule, fi, st, 'a pack strategy places bytes at an explicit position: the output is no longer the in-order concatenation of the fields', node.lineno, clause='2')
                elif m in ('tobytes', 'fill', 'current_offset'):
                    pass
            if isinstance(node, ast.Call) and isinstance(node.func, ast.Attribute) and node.func.attr in ('pack', 'pack_impl') and not _is_struct_obj(repo, node.func.value):
                delegated = True
            if isinstance(node, ast.Call) and isinstance(node.func, ast.Name) and node.func.id == 'pack':
                delegated = True
            if isinstance(node, (ast.Assign, ast.AugAssign)):
                for t in (node.targets if isinstance(node, ast.Assign) else [node.target]):
                    if isinstance(t, ast.Attribute) and canon(t.value) == 'fragments':
                        n += 1
                        st = '[%s] %s: %s' % (ci.name, fi.qual, stmt_text(node)[:100])
                        if t.attr == 'current_offset' and (fi.qual in ALLOWED_CURSOR_WRITERS or (ci.name + '.pack') in ALLOWED_CURSOR_WRITERS):
                            # whichever function the class installs as its pack (Move._pack_aligning ...)
                            ctx.holds(rule, fi, st, ALLOWED_CURSOR_WRITERS.get(fi.qual) or ALLOWED_CURSOR_WRITERS[ci.name + '.pack'], node.lineno, clause='2')
                        else:
                            ctx.violation(rule, fi, st, 'a pack strategy rewrites the buffer\'s %s: later fields are emitted at the wrong position' % t.attr, node.lineno, clause='2')
        if not delegated:
            try:
                for p_ in repo.walker(max_paths=ctx.max_paths).paths(fi.node, cls=ci):
                    for e in p_.all_effects():
                        if e.kind == 'call' and isinstance(e.call.func, ast.Attribute) and e.call.func.attr in ('pack', 'pack_impl') \
                                and not _is_struct_obj(repo, e.call.func.value):
                            delegated = True
            except Undecided:
                pass
        if not wrote and not delegated and ci.name == 'Bits':
            # a member of a bit run merges into the shared slot; the run is emitted once, by its last
            # member: that discipline is decided by the pair rule of Bits (C07-d, check_pairs below)
            ctx.holds(rule, fi, '[%s] %s emits nothing itself' % (ci.name, fi.qual), 'bit-run member: emission is the last member\'s (C07-d)', fi.node.lineno, clause='2')
        elif not wrote and not delegated and fi.qual not in ('Field.pack_noop', 'Move.pack', 'Bkpt.pack') and ci.name != 'Move':
            ctx.violation(rule, fi, '[%s] %s' % (ci.name, fi.qual), 'the pack strategy neither writes at the cursor nor delegates to a child pack', fi.node.lineno, clause='2')
    for t in repo.templates():
        if t.tree is None:
            continue
        for node in ast.walk(t.tree):
            if isinstance(node, ast.Call) and isinstance(node.func, ast.Attribute) and canon(node.func.value) == 'fragments' and node.func.attr in ('append', 'extend', 'insert'):
                n += 1
                st = 'template %s@%d: %s' % (t.func.qual.split('.')[-1], t.lineno, stmt_text(node)[:100])
                if node.func.attr == 'insert':
                    ctx.violation(rule, t.func, st, 'generated code places bytes at an explicit position', t.lineno, clause='2')
                else:
                    ctx.holds(rule, t.func, st, 'written at the cursor', t.lineno, clause='2')
    ctx.unit('buffer_write_sites', n)
    ctx.floor('buffer write sites in pack strategies', n, 7)


def check_assert_consistency(ctx):
    repo = ctx.repo
    rule = 'C02-assert-consistency'
    pk = repo.cls('Packet')
    fi = pk.methods.get('assert_consistency')
    if fi is None:
        ctx.violation(rule, (pk.file, 'Packet'), 'Packet.assert_consistency', 'method not found', pk.node.lineno, clause='3')
        return
    ctx.unit('functions')
    w = repo.walker()
    flag = [a.arg for a in fi.node.args.args][1] if len(fi.node.args.args) > 1 else 'dont_raise'
    seen = set()
    for p in w.paths(fi.node, cls=pk):
        gt = p.guard_texts()
        caught = any(g.startswith('caught(') for g in gt)
        r = p.ret()
        if not caught:
            seen.add('ok')
            reparse = [e for e in p.calls() if isinstance(e.call.func, ast.Attribute) and e.call.func.attr == 'unpack']
            good = len(reparse) == 1 and canon(reparse[0].call.func.value) in ('self.__class__', 'type(self)') and reparse[0].call.args and canon(reparse[0].call.args[0]) == 'self.pack()' \
                and not any(k.arg == 'silent' for k in reparse[0].call.keywords)
            if not good:
                ctx.violation(rule, fi, 'success path: %s' % [e.text() for e in reparse], 'the check must re-parse self.pack() with the packet\'s own class (not silently)', fi.node.lineno, clause='3')
            elif isinstance(r, ast.Constant) and r.value is True:
                ctx.holds(rule, fi, 'self.__class__.unpack(self.pack()) did not raise -> True', 'True exactly on the successful re-parse', fi.node.lineno, clause='3')
            else:
                ctx.violation(rule, fi, 'success path returns %s' % (canon(r) if r is not None else None), 'must return True when the re-parse succeeds', fi.node.lineno, clause='3')
        elif flag in gt:
            seen.add('false')
            if isinstance(r, ast.Constant) and r.value is False:
                ctx.holds(rule, fi, 'failure under %s -> False' % flag, 'False only on request', fi.node.lineno, clause='3')
            else:
                ctx.violation(rule, fi, 'failure under %s -> %s' % (flag, p.describe()['end']), 'a failed re-parse must yield False under dont_raise (never True)', fi.node.lineno, clause='3')
        else:
            seen.add('raise')
            if p.raises():
                ctx.holds(rule, fi, 'failure without %s -> re-raise' % flag, 'the failure is reported', fi.node.lineno, clause='3')
            else:
                ctx.violation(rule, fi, 'failure without %s -> %s' % (flag, p.describe()['end']), 'a failed re-parse must raise unless dont_raise is set', fi.node.lineno, clause='3')
    if seen != {'ok', 'false', 'raise'}:
        ctx.violation(rule, fi, 'assert_consistency paths %s' % sorted(seen), 'expected a success path, a dont_raise path and a re-raising path', fi.node.lineno, clause='3')


def check(ctx):
    from .c19 import check_packet_init, check_inits
    from .c01 import check_pairs, check_fill_and_buffer
    check_packet_init(ctx)
    check_inits(ctx)
    check_concatenation(ctx)
    # Round 9 (supplement): a field conditioned on an optional field parses what it packed (C08 g)
    from .c08 import check_truth_before_length
    check_truth_before_length(ctx, rule='R2-condition-truth')
    from .c01 import check_driver_symmetry
    check_driver_symmetry(ctx)
    check_fill_and_buffer(ctx)
    check_assert_consistency(ctx)
    check_pairs(ctx)
    # append / extend insert at the cursor (C11-6): same rule as C11, one level of delegation followed
    from .c11 import check as c11_check
    c11_check(ctx, parts=('append', 'index'))
    # sizes, counts and conditions are deferred expressions evaluated on both sides: the evaluator
    # is a function of the packet and its arguments only (C09 d), no stack kept between parses
    from .c09 import check_exec
    check_exec(ctx)
    # Round 7: a described field left automatic is recomputed by every pack (its before-pack hook
    # writes the hidden field and nothing else): a hook that also marks the field as forced freezes
    # the first computed value, so the bytes of a later pack no longer parse to the packet (C17-a)
    # Round 8: the generated blocks take values out of the input through struct only (C05): a byte
    # indexed out of raw is an unsigned number whatever the field declares
    from .c05 import check_generated_codecs
    try:
        check_generated_codecs(ctx)
    except Undecided as e:
        ctx.undecided('R1-generated-int-codec', ('bisturi/codegen.py', 'CodeGenerator'), 'generated codecs', str(e), 0)
    from .c17 import check_auto
    try:
        check_auto(ctx)
    except Undecided as e:
        ctx.undecided('R13-typestate', ('bisturi/descriptor.py', 'Auto'), 'Auto', str(e), 0)
