"""C19 -- default-constructed packets hold the declared defaults.

Constructor folds with omitted arguments + ``init`` path summaries + R6 freshness:

 (a) with the argument omitted each constructor folds to the documented default:
     Int / Bits -> 0; Data -> NUL bytes of the declared size when the size is a constant and
     no default is given, else the given bytes / b''; Sequence -> the given list or [];
     Optional -> the given value or None; Ref -> a deep copy of the prototype packet (a
     packet prototype accepts no default, a callable / expression prototype requires one);
     Ref(PacketClass) is Ref(PacketClass());
 (b) every ``init`` stores, on every path, defaults[field_name] when the keyword is present
     and otherwise the field's default (copied / cloned when it is mutable); scratch slots
     are initialised by the child's init;
 (c) Packet.__init__ visits every get_fields() entry once with the one keyword dict, and
     field initialisation is on by default;
 (d) values stored are fresh / immutable / user-supplied (shared with C13, rule R6).
That pack() of the result is the encoding of those values is C02 / C05.

Round 4: (C19-prototype-snapshot) as_prototype takes a new snapshot per request;
(C19-defaults-copied-whole) no field-wise copy protocol on Packet.

Round 5: the prototype replaced by the class itself on a path chosen by == (field values only).

Round 6: (a') nobody rewrites a default after construction; flat copies of list defaults;
Optional.pack decides on 'is None' (C08 pair rule).
Round 7: includes the slot-flow rule and the pack-hook rule of C17 (a keyword for a described field
needs its flag slot; a field left automatic is computed by its before-pack hook).
Round 8: a field never rewrites the default of another field object; includes the tobytes rule of
C11 and the keyword-dict rule of C17.
"""
import ast

from .. import Undecided
from ..expr import canon, call_name, unparse, negate, conj
from ..model import strategy_table, packet_param, stmt_text

EXPLANATION = __doc__
LEVEL_RULE = 'one obligation per constructor fold case, per (field class, init path), per constructor-loop clause and per stored value'
ASSUMPTIONS = [
    'copy.deepcopy / Prototype.clone give an independent copy',
    'dict.get(k, d) returns d exactly when k is absent',
]


def gtexts(p):
    from ..model import path_facts
    return path_facts(p)


def param_default(fi, name):
    a = fi.node.args
    params = [x.arg for x in a.args]
    d = dict(zip(params[len(params) - len(a.defaults):], a.defaults))
    return d.get(name)


def last_store(p, attr):
    st = [e for e in p.effects if e.kind == 'store_attr' and canon(e.obj) == 'self' and e.name == attr]
    return st[-1] if st else None


def _is_dyn_test(repo, ci, e, I):
    """the test says "the prototype is resolved at run time": callable(I), isinstance(I, <the
    deferred-expression classes>) (possibly through a module-level alias), or a disjunction with
    such a disjunct"""
    if isinstance(e, ast.BoolOp) and isinstance(e.op, ast.Or):
        return any(_is_dyn_test(repo, ci, v, I) for v in e.values)
    if isinstance(e, ast.Call) and isinstance(e.func, ast.Name) and e.func.id == 'callable' and len(e.args) == 1 and canon(e.args[0]) == I:
        return True
    if isinstance(e, ast.Call) and isinstance(e.func, ast.Name) and e.func.id == 'isinstance' and len(e.args) == 2 and canon(e.args[0]) == I:
        t = e.args[1]
        if isinstance(t, ast.Name):
            for st in repo.modules[ci.module]['tree'].body:
                if isinstance(st, ast.Assign) and len(st.targets) == 1 and isinstance(st.targets[0], ast.Name) and st.targets[0].id == t.id:
                    t = st.value
        names = {x.id for x in ast.walk(t) if isinstance(x, ast.Name)}
        return bool(names & {'UnaryExpr', 'BinaryExpr', 'NaryExpr'})
    return False


def check_ctor_folds(ctx):
    repo = ctx.repo
    rule = 'C19-ctor-defaults'
    w = repo.walker(inline_depth=ctx.depth, max_paths=ctx.max_paths, split_ifexp=True)
    # ---- Int / Bits
    for cname in ('Int', 'Bits'):
        ci = repo.cls(cname)
        fi = ci.methods.get('__init__')
        ctx.unit('functions')
        d = param_default(fi, 'default')
        st = '%s(default omitted) -> %s' % (cname, canon(d) if d is not None else 'required')
        stored = any(isinstance(n, ast.Assign) and canon(n.targets[0]) == 'self.default' and canon(n.value) == 'default' for n in ast.walk(fi.node))
        if isinstance(d, ast.Constant) and d.value == 0 and type(d.value) is int and stored:
            ctx.holds(rule, fi, st, 'integers default to 0 unless given', fi.node.lineno, clause='a')
        else:
            ctx.violation(rule, fi, st, 'expected default=0 stored unchanged as self.default', fi.node.lineno, clause='a')
    # ---- Data
    ci = repo.cls('Data')
    fi = ci.methods.get('__init__')
    ctx.unit('functions')
    d = param_default(fi, 'default')
    if not (isinstance(d, ast.Constant) and d.value == b''):
        ctx.violation(rule, fi, 'Data(default omitted) -> %s' % (canon(d) if d is not None else None), "byte strings default to b'' (before the NUL rule)", fi.node.lineno, clause='a')
    cases = set()
    for p in w.paths(fi.node, cls=ci):
        if p.raises():
            continue
        gt = gtexts(p)
        s = last_store(p, 'default')
        if s is None:
            ctx.violation(rule, fi, 'Data.__init__ path [%s]' % '; '.join(sorted(gt))[:120], 'self.default is never set', fi.node.lineno, clause='a')
            continue
        v = canon(s.value)
        nul = 'not default' in gt and 'isinstance(byte_count, int)' in gt
        key = ('nul' if nul else 'given/empty', v)
        if key in cases:
            continue
        cases.add(key)
        if nul:
            if v in ("(b'\\x00' * byte_count)", "(byte_count * b'\\x00')"):
                ctx.holds(rule, fi, 'Data(n) without default -> NUL * n', 'fixed byte strings default to NUL bytes of the declared size', s.lineno, clause='a')
            else:
                ctx.violation(rule, fi, 'Data(n) without default -> %s' % v, "expected b'\\x00' * byte_count", s.lineno, clause='a')
        else:
            if v == 'default':
                ctx.holds(rule, fi, 'Data(variable size or default given) -> the given bytes / b\'\'', 'variable byte strings default to empty', s.lineno, clause='a')
            else:
                ctx.violation(rule, fi, 'Data(variable size or default given) -> %s' % v, 'expected the given default unchanged', s.lineno, clause='a')
    if not any(k[0] == 'nul' for k in cases):
        ctx.violation(rule, fi, 'Data.__init__', 'the NUL-bytes rule for constant-size fields without a default is gone', fi.node.lineno, clause='a')
    # ---- Sequence / Optional
    ci = repo.cls('Sequence')
    fi = ci.methods.get('__init__')
    ctx.unit('functions')
    seen_none = seen_given = False
    for p in w.paths(fi.node, cls=ci):
        if p.raises():
            continue
        gt = gtexts(p)
        s_ = last_store(p, 'default')
        if s_ is None:
            ctx.violation(rule, fi, 'Sequence.__init__ path [%s]' % '; '.join(sorted(gt))[:100], 'self.default is never set', fi.node.lineno, clause='a')
            continue
        v = s_.value
        if '(default is None)' in gt:
            if isinstance(v, ast.List) and not v.elts:
                if not seen_none:
                    ctx.holds(rule, fi, 'Sequence(default omitted) -> []', 'a new empty list per declaration', s_.lineno, clause='a')
                seen_none = True
            else:
                ctx.violation(rule, fi, 'Sequence(default omitted) -> %s' % canon(v), 'expected: default if default is not None else []', s_.lineno, clause='a')
        elif '(default is not None)' in gt:
            if canon(v) == 'default':
                if not seen_given:
                    ctx.holds(rule, fi, 'Sequence(default=d) -> d', 'the given list', s_.lineno, clause='a')
                seen_given = True
            else:
                ctx.violation(rule, fi, 'Sequence(default=d) -> %s' % canon(v), 'expected the given default', s_.lineno, clause='a')
        else:
            ctx.violation(rule, fi, 'self.default = %s' % canon(v), 'expected: default if default is not None else []', s_.lineno, clause='a')
    if not (seen_none and seen_given):
        ctx.violation(rule, fi, 'Sequence.__init__', 'expected a path for the omitted default ([]) and one for a given default', fi.node.lineno, clause='a')
    d = param_default(fi, 'default')
    if not (isinstance(d, ast.Constant) and d.value is None):
        ctx.violation(rule, fi, 'Sequence(default omitted) -> %s' % (canon(d) if d is not None else None), 'the default parameter must default to None', fi.node.lineno, clause='a')
    ci = repo.cls('Optional')
    fi = ci.methods.get('__init__')
    ctx.unit('functions')
    d = param_default(fi, 'default')
    from ..model import ctor_stores
    stored = ctor_stores(repo, ci).get('default') == {'default'}
    if isinstance(d, ast.Constant) and d.value is None and stored:
        ctx.holds(rule, fi, 'Optional(default omitted) -> None', 'optional fields default to None unless given', fi.node.lineno, clause='a')
    else:
        ctx.violation(rule, fi, 'Optional(default omitted) -> %s' % (canon(d) if d is not None else None), 'expected default=None stored unchanged', fi.node.lineno, clause='a')
    # ---- Ref: the paths of __init__ with whatever helper it delegates to expanded
    ci = repo.cls('Ref')
    ini = ci.methods.get('__init__')
    if ini is None:
        raise Undecided('Ref.__init__ not found')
    names = [x.arg for x in ini.node.args.args]
    if len(names) < 2 or 'default' not in names:
        raise Undecided('Ref.__init__ does not take (self, prototype, ..., default)')
    P, D = names[1], 'default'
    ctx.unit('functions', 2)
    fi = ini
    seen = set()
    for p in w.paths(ini.node, cls=ci):
        gt = gtexts(p)
        shortcut = ('isinstance(%s, type)' % P) in gt
        I = '%s()' % P if shortcut else P
        dyn_marks = ('callable(%s)' % I, 'isinstance(%s, (UnaryExpr, BinaryExpr, NaryExpr,))' % I,
                     '(callable(%s) or isinstance(%s, (UnaryExpr, BinaryExpr, NaryExpr,)))' % (I, I))
        dyn = any(g in dyn_marks for g in gt) or any(pol and _is_dyn_test(repo, ci, g_, I) for g_, pol in p.guards)
        pkt = ('isinstance(%s, Packet)' % I) in gt and not dyn
        none = ('(%s is None)' % D) in gt
        given = ('(%s is not None)' % D) in gt
        s_ = last_store(p, 'default')
        who = 'Ref(PacketClass)' if shortcut else 'Ref(instance)'
        if dyn and none:
            seen.add('dyn-none')
            if p.raises() and call_name(p.end[1]) == 'ValueError':
                ctx.holds(rule, fi, 'Ref(callable, default omitted) -> ValueError', 'a run-time selected reference needs an explicit default', fi.node.lineno, clause='a')
            else:
                ctx.violation(rule, fi, 'Ref(callable, default omitted) -> %s' % p.describe()['end'], 'a callable / expression prototype without default must be rejected', fi.node.lineno, clause='a')
        elif dyn and given:
            if p.raises():
                continue          # e.g. embed with a non-packet prototype
            seen.add('dyn-given')
            if s_ is not None and canon(s_.value) == D:
                ctx.holds(rule, fi, 'Ref(callable, default=d) -> d', 'the given default', fi.node.lineno, clause='a')
            else:
                ctx.violation(rule, fi, 'Ref(callable, default=d) -> %s' % (canon(s_.value) if s_ else None), 'the given default must be kept', fi.node.lineno, clause='a')
        elif pkt and none:
            if p.raises():
                continue
            seen.add('pkt-class' if shortcut else 'pkt')
            if s_ is not None and call_name(s_.value) in ('copy.deepcopy', 'deepcopy') and canon(s_.value.args[0]) == I:
                ctx.holds(rule, fi, '%s -> deepcopy(%s)' % (who, I), 'a fresh copy of the prototype packet', fi.node.lineno, clause='a')
            else:
                ctx.violation(rule, fi, '%s -> %s' % (who, canon(s_.value) if s_ else None), 'the default of a packet reference is a deep copy of its prototype', fi.node.lineno, clause='a')
        elif pkt and given:
            seen.add('pkt-given')
            if not p.raises():
                ctx.violation(rule, fi, 'Ref(packet, default=d)', 'a packet prototype with an extra default must be rejected', fi.node.lineno, clause='a')
    if not {'dyn-none', 'dyn-given', 'pkt'} <= seen:
        ctx.violation(rule, fi, 'Ref default cases %s' % sorted(seen), 'expected the callable-without-default, callable-with-default and packet cases', fi.node.lineno, clause='a')
    if 'pkt-class' in seen:
        ctx.holds(rule, ini, 'Ref(PacketClass) == Ref(PacketClass()); default rule applied to the instance', 'class shortcut', ini.node.lineno, clause='a')
    else:
        ctx.violation(rule, ini, 'Ref.__init__', 'the packet-class shortcut (a class is instantiated and then treated as the prototype packet) is missing', ini.node.lineno, clause='a')


def check_inits(ctx):
    repo = ctx.repo
    rule = 'C19-init-stores'
    table = strategy_table(repo)
    value_bearing = ('Int', 'Data', 'Bits', 'Ref', 'Sequence', 'Optional')
    DEF = {'Int': 'self.default', 'Bits': 'self.default', 'Data': 'self.default'}
    n = 0
    for cname in value_bearing:
        if cname not in table:
            ctx.violation(rule, ('bisturi/field.py', cname), cname, 'field class not found', 0, clause='b')
            continue
        ci, _ = table[cname]
        fi = repo.method(ci, 'init')
        if fi is None:
            ctx.violation(rule, (ci.file, cname), '%s.init' % cname, 'no init', ci.node.lineno, clause='b')
            continue
        ctx.unit('functions')
        pk = packet_param(fi, None)
        # what _compile computes for init to use (a clone function chosen once, ...) is read through
        # its definition, once per way _compile can define it
        reads = {n_.attr for n_ in ast.walk(fi.node) if isinstance(n_, ast.Attribute) and isinstance(n_.value, ast.Name) and n_.value.id == 'self' and isinstance(n_.ctx, ast.Load)}
        heaps, seen_h = [], set()
        for s_ in table[cname][1]:
            alts = repo.strategy_alternatives(s_, reads - {'default', 'field_name', 'prototype'})
            for h_ in (alts if alts is not None else [{}]):
                key_ = tuple(sorted((k, canon(v)) for k, v in h_.items()))
                if key_ not in seen_h:
                    seen_h.add(key_)
                    heaps.append(h_)
        all_paths = []
        for h_ in heaps or [{}]:
            w = repo.walker(inline_depth=ctx.depth, max_paths=ctx.max_paths)
            w.const_heap = h_
            all_paths.extend(w.paths(fi.node, cls=ci))
        for p in all_paths:
            if p.raises():
                continue
            n += 1
            st_ = [e for e in p.effects if e.kind == 'setattr' and canon(e.obj) == pk and canon(e.name) == 'self.field_name']
            label = '[%s] init path [%s]' % (cname, '; '.join(sorted(gtexts(p)))[:110])
            if len(st_) != 1:
                ctx.violation(rule, fi, label, 'the field\'s own attribute is stored %d times on this path' % len(st_), fi.node.lineno, clause='b')
                continue
            v = st_[0].value
            t = canon(v)
            gt = gtexts(p)
            ok = False
            why = ''
            if t == 'defaults.get(self.field_name, self.default)':
                ok, why = True, 'keyword if present, else the (immutable) default'
            elif t == 'defaults[self.field_name]' and not any(g.startswith("caught('KeyError'") for g in gt):
                ok, why = True, 'keyword (or the clone just placed in the keyword dict)'
            elif t in ('copy.deepcopy(self.default)', 'deepcopy(self.default)') and any(g.startswith("caught('KeyError'") for g in gt):
                ok, why = True, 'keyword absent: a deep copy of the default'
            elif t in ('copy.deepcopy(self.default)', 'deepcopy(self.default)') and '(self.field_name not in defaults)' in gt:
                ok, why = True, 'keyword absent: a deep copy of the default'
            elif t == 'defaults[self.field_name]' and '(self.field_name in defaults)' in gt:
                ok, why = True, 'keyword present'
            elif t == 'self.default' and cname in DEF and ('(self.field_name not in defaults)' in gt or any(g.startswith("caught('KeyError'") for g in gt)):
                ok, why = True, 'keyword absent: the (immutable) default'
            shallow = t in ('list(self.default)', 'copy.copy(self.default)', 'self.default[:]', 'self.default.copy()', 'dict(self.default)', 'tuple(self.default)')
            if not ok and shallow:
                # a flat copy of the declared default: the elements are shared with every other packet of
                # the class.  Harmless only when they cannot be changed in place: decided from which field
                # classes can satisfy the guard the path took
                fixed_guard = [g for g in gt if g.endswith('.is_fixed') and not g.startswith('not ')]
                setters = sorted({c_.name for c_ in repo.classes.values() for m_ in c_.methods.values() for a_ in ast.walk(m_.node)
                                  if isinstance(a_, ast.Assign) and any(isinstance(t_, ast.Attribute) and t_.attr == 'is_fixed' and canon(t_.value) == 'self' for t_ in a_.targets)
                                  and not (isinstance(a_.value, ast.Constant) and a_.value.value is False)})
                mutable = [c_ for c_ in setters if c_ not in ('Int', 'Data', 'Bits')]
                if fixed_guard and not mutable:
                    ok, why = True, 'a flat copy, on a path where the elements are values of %s fields (ints / byte strings: nothing to change in place)' % '/'.join(setters)
                else:
                    ctx.violation(rule, fi, '%s stores %s' % (label, t), 'a flat copy of the declared default: its elements are the declared objects themselves%s, so changing an element of one default-constructed packet changes the default of every later packet' % (
                        ' (%s fields can be "fixed" too, and their values are packets)' % '/'.join(mutable) if fixed_guard and mutable else ''), st_[0].lineno, clause='b', witness=True)
                    continue
            if ok:
                ctx.holds(rule, fi, '%s stores %s' % (label, t), why, st_[0].lineno, clause='b')
            else:
                ctx.violation(rule, fi, '%s stores %s' % (label, t), 'init must store the keyword when present and the declared default (copied when mutable) otherwise', st_[0].lineno, clause='b')
            # Ref: clone placed in the keyword dict only when absent
            for e in p.effects:
                if e.kind == 'store_sub' and canon(e.obj) == 'defaults':
                    if '(self.field_name not in defaults)' not in gt:
                        ctx.violation(rule, fi, '%s: %s' % (label, e.text()), 'the keyword dict is overwritten although the user supplied the field', e.lineno, clause='b')
                    elif not (isinstance(e.value, ast.Call) and isinstance(e.value.func, ast.Attribute) and e.value.func.attr == 'clone'):
                        ctx.violation(rule, fi, '%s: %s' % (label, e.text()), 'the value placed in the keyword dict is not a clone of the prototype', e.lineno, clause='b')
                    else:
                        ctx.holds(rule, fi, '%s: %s' % (label, e.text()), 'a fresh clone of the prototype when the keyword is absent', e.lineno, clause='b')
            # Sequence / Optional: child scratch initialised
            if cname in ('Sequence', 'Optional'):
                child = [e for e in p.effects if e.kind == 'call' and canon(e.call.func) == 'self.prototype_field.init']
                if len(child) == 1 and canon(child[0].call.args[0]) == pk and isinstance(child[0].call.args[1], ast.Dict) and not child[0].call.args[1].keys:
                    ctx.holds(rule, fi, '[%s] child init(packet, {})' % cname, 'scratch slot initialised with the element default', child[0].lineno, clause='b')
                else:
                    ctx.violation(rule, fi, '[%s] child init: %s' % (cname, [c.text() for c in child]), 'the scratch slot of the element must be initialised by the child\'s init with an empty keyword dict', fi.node.lineno, clause='b')
            if cname == 'Bits' and 'self.iam_first' in gt:
                z = [e for e in p.effects if e.kind == 'setattr' and canon(e.name) == 'self.I.field_name']
                z = z or [e for e in p.effects if e.kind == 'call' and canon(e.call.func) == 'self.I.init' and len(e.call.args) == 2
                          and isinstance(e.call.args[1], ast.Dict) and not e.call.args[1].keys]
                if not z:
                    ctx.violation(rule, fi, label, 'the shared bit-group slot is not initialised', fi.node.lineno, clause='b')
    ctx.unit('init_paths', n)
    ctx.floor('init paths analysed', n, 10)


def check_packet_init(ctx):
    repo = ctx.repo
    rule = 'C19-packet-init'
    pk = repo.cls('Packet')
    fi = pk.methods.get('__init__')
    ctx.unit('functions')
    d = param_default(fi, '_initialize_fields')
    if isinstance(d, ast.Constant) and d.value is True:
        ctx.holds(rule, fi, '_initialize_fields defaults to True', 'a packet constructed by the user is initialised', fi.node.lineno, clause='c')
    else:
        ctx.violation(rule, fi, '_initialize_fields default %s' % (canon(d) if d is not None else None), 'field initialisation must be on by default', fi.node.lineno, clause='c')
    kw = fi.node.args.kwarg.arg if fi.node.args.kwarg else None
    if kw is None:
        ctx.violation(rule, fi, 'Packet.__init__ signature', 'keyword arguments are not collected', fi.node.lineno, clause='c')
        return
    w = repo.walker()
    ok = False
    for p in w.paths(fi.node, cls=pk):
        gt = gtexts(p)
        loops = [e for e in p.effects if e.kind == 'loop']
        if '_initialize_fields' in gt:
            if len(loops) != 1:
                ctx.violation(rule, fi, 'initialising path', 'expected one loop over the fields', fi.node.lineno, clause='c')
                continue
            lp = loops[0]
            it = canon(lp.sub['iter'])
            if it not in ('self.__class__.get_fields()', 'self.get_fields()', 'type(self).get_fields()'):
                ctx.violation(rule, fi, 'for ... in %s' % it, 'not every field is initialised (the loop does not cover the full get_fields() list)', lp.lineno, clause='c')
                continue
            item = '<item of %d>' % lp.sub['phi']
            for bp in lp.sub['body']:
                # (a continue after the field was initialised skips nothing: the call count below decides)
                if bp.end[0] in ('break', 'return') and not any("caught(" in g for g in gtexts(bp)):
                    ctx.violation(rule, fi, 'loop body ends in %s' % bp.end[0], 'the constructor can skip fields', lp.lineno, clause='c')
                inits = [e for e in bp.effects if e.kind == 'call' and canon(e.call.func) == '%s[1].init' % item]
                if len(inits) != 1:
                    ctx.violation(rule, fi, 'loop body [%s]' % '; '.join(sorted(gtexts(bp))), 'field.init is called %d times' % len(inits), lp.lineno, clause='c')
                    continue
                a = inits[0].call.args
                if len(a) == 2 and canon(a[0]) == 'self' and canon(a[1]) == kw:
                    ok = True
                else:
                    ctx.violation(rule, fi, inits[0].text(), 'field.init must receive (the packet, the one keyword dict)', inits[0].lineno, clause='c')
        elif 'not _initialize_fields' in gt:
            if loops:
                ctx.violation(rule, fi, 'non-initialising path', 'fields are initialised although _initialize_fields is False', fi.node.lineno, clause='c')
    if ok:
        ctx.holds(rule, fi, 'for name, field, _, _ in get_fields(): field.init(self, defaults)', 'every field once, one keyword dict', fi.node.lineno, clause='c')
    else:
        ctx.violation(rule, fi, 'Packet.__init__', 'no path initialises every field with the keyword dict', fi.node.lineno, clause='c')


def check_snapshots(ctx):
    """the default of a packet reference is the prototype *as declared*: Ref._compile asks the
    packet for a snapshot, and every request takes a new one (a snapshot remembered from an
    earlier declaration that used the same packet object shows the packet as it was then)"""
    repo = ctx.repo
    rule = 'C19-prototype-snapshot'
    pk = repo.cls('Packet')
    fi = pk.methods.get('as_prototype')
    if fi is None:
        ctx.undecided(rule, (pk.file, 'Packet'), 'Packet.as_prototype', 'anchor not found', pk.node.lineno, clause='b')
        return
    ctx.unit('functions')
    tables = set()
    for st in repo.modules[fi.module]['tree'].body:
        if isinstance(st, ast.Assign) and isinstance(st.value, (ast.Dict, ast.List, ast.Set)) or (isinstance(st, ast.Assign) and isinstance(st.value, ast.Call) and (call_name(st.value) or '').split('.')[-1] in ('dict', 'list', 'set', 'WeakValueDictionary', 'WeakKeyDictionary', 'OrderedDict', 'defaultdict')):
            for t in st.targets:
                if isinstance(t, ast.Name):
                    tables.add(t.id)
    used = sorted({n.id for n in ast.walk(fi.node) if isinstance(n, ast.Name) and n.id in tables})
    attrs = sorted({n.attr for n in ast.walk(fi.node) if isinstance(n, ast.Attribute) and isinstance(n.ctx, ast.Load) and isinstance(n.value, ast.Name) and n.value.id == 'self'
                    and n.attr.startswith('_') and 'prototype' in n.attr.lower()})
    if used or attrs:
        ctx.violation(rule, fi, 'Packet.as_prototype reads %s' % ', '.join(used + ['self.' + a for a in attrs]), 'snapshots are remembered between requests: a packet used as prototype, then changed, then used in another declaration is given the earlier snapshot', fi.node.lineno, clause='b', witness=True)
        return
    ok = True
    for p in repo.walker().paths(fi.node, cls=pk):
        if p.raises():
            continue
        r = p.ret()
        if not (isinstance(r, ast.Call) and (call_name(r) or '').split('.')[-1] == 'Prototype' and len(r.args) == 1 and canon(r.args[0]) == 'self'):
            ok = False
            ctx.undecided(rule, fi, 'Packet.as_prototype -> %s' % (canon(r)[:80] if r is not None else None), 'not a new Prototype(self)', fi.node.lineno, clause='b')
    if ok:
        ctx.holds(rule, fi, 'Packet.as_prototype -> Prototype(self)', 'a new snapshot per request', fi.node.lineno, clause='b')


def check_default_writers(ctx):
    """Round 6.  (a') the declared default is what the constructor stored: after construction only
    the two known conversions touch ``.default`` -- Ref._compile turns a packet default into its
    prototype (``as_prototype()``) and the specialization builder installs the constant of a
    specialized class.  Anything else that rewrites a default at compile / run time (masking it,
    normalising it) changes what a packet built without arguments holds"""
    repo = ctx.repo
    rule = 'C19-ctor-defaults'
    n = 0
    for fi in repo.functions.values():
        if fi.node.name in ('__init__', '__new__') or fi.node.name in repo.absorbed:
            continue
        from ..effects import phase_of
        ctor_helper = fi.cls is not None and any(isinstance(c, ast.Call) and isinstance(c.func, ast.Attribute) and c.func.attr == fi.node.name and canon(c.func.value) == 'self'
                                                 for m_ in fi.cls.methods.values() if m_.node.name == '__init__' for c in ast.walk(m_.node))
        if ctor_helper:
            continue
        for a_ in ast.walk(fi.node):
            tg = a_.targets if isinstance(a_, ast.Assign) else [a_.target] if isinstance(a_, ast.AugAssign) else []
            for t_ in tg:
                if isinstance(t_, ast.Attribute) and t_.attr == 'default':
                    n += 1
                    st = '%s: %s' % (fi.qual, stmt_text(a_)[:90])
                    v = a_.value
                    if isinstance(a_, ast.Assign) and isinstance(v, ast.Call) and isinstance(v.func, ast.Attribute) and v.func.attr == 'as_prototype':
                        ctx.holds(rule, fi, st, 'a packet default becomes its prototype (snapshot), same value', a_.lineno, clause='a')
                    elif fi.module == 'packet_builder' and isinstance(a_, ast.Assign):
                        ctx.holds(rule, fi, st, 'specialization: the class installs its declared constant', a_.lineno, clause='a')
                    elif isinstance(a_, ast.AugAssign) or any(isinstance(x, ast.Attribute) and x.attr == 'default' for x in ast.walk(v)):
                        ctx.violation(rule, fi, st, 'the declared default is recomputed after construction: packets built without arguments no longer hold the value the declaration gave', a_.lineno, clause='a', witness=True)
                    elif isinstance(t_.value, ast.Name) and t_.value.id not in ('self', 'cls') and fi.cls is not None and repo.is_subclass(fi.cls, 'Field'):
                        # Round 8: one field rewriting the default of another field object
                        ctx.violation(rule, fi, st, 'a field rewrites the declared default of another field object (%s): the fields reached through another packet class are that class\'s own declarations, so its packets built without arguments change too' % t_.value.id, a_.lineno, clause='a', witness=True)
                    else:
                        ctx.undecided(rule, fi, st, 'a default is assigned outside the constructors', a_.lineno, clause='a')
    ctx.unit('default_writers', n)


def _attempt(ctx, fn, *a, **k):
    """a part that cannot be decided is one obligation without verdict; the other parts still report"""
    try:
        return fn(ctx, *a, **k)
    except Undecided as e:
        ctx.undecided('C19-part', ('bisturi/', fn.__name__), fn.__name__, str(e), 0)


def check(ctx):
    _attempt(ctx, check_ctor_folds)
    _attempt(ctx, check_default_writers)
    # "pack() of the result is the encoding of those values": an optional field packs whatever is
    # not None -- 0 and b'' are values (C08 pair rule of Optional)
    from .c08 import check_optional
    _attempt(ctx, check_optional, ctx.repo.cls('Optional'))
    _attempt(ctx, check_snapshots)
    # a declared default that is a packet is copied whole (hidden slots included)
    from .c17 import check_copies_keep_state
    _attempt(ctx, check_copies_keep_state, rule='C19-defaults-copied-whole')
    _attempt(ctx, check_inits)
    _attempt(ctx, check_packet_init)
    # a keyword naming a described field overrides it like an assignment (C17-d)
    from .c17 import check_constructor
    _attempt(ctx, check_constructor)
    # ... which needs the hidden flag slot of every described field to exist (C17-b): a missing slot
    # raises AttributeError inside the constructor, where it is taken for "no such keyword"
    from .c17 import check_slots
    _attempt(ctx, check_slots)
    from ..model import check_init_writes_own_keyword_only
    _attempt(ctx, check_init_writes_own_keyword_only, 'C19-inits')
    # "pack() of the result is the encoding of those values": a described field left automatic is
    # computed by its before-pack hook, which every pack driver runs for every hook (C17-c)
    from .. import drivers as D

    def hooks_(ctx):
        for d in D.get_drivers(ctx.repo):
            if d.kind == 'pack':
                D.check_hooks_order(ctx, 'R13-hooks', d)
    _attempt(ctx, hooks_)
    # Round 8: pack() of the result is the stored chunks in order, each once (C11 tobytes)
    from .c11 import check as c11_check
    _attempt(ctx, c11_check, parts=('tobytes',))
    from .c13 import check_freshness
    _attempt(ctx, check_freshness)
    ctx.floor('obligations', len(ctx.obs), 40)
    ctx.trust(*ASSUMPTIONS)
