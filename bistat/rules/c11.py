"""C11 -- the output buffer never loses, overwrites or misplaces bytes.

Rule family R8 (interval normal forms) on bisturi/fragments.py::Fragments:

 (1) cursor:   on every non-raising path of insert, current_offset := position + len(string);
 (2) store:    the only mutation of the chunk map is one subscript store keyed by
               ``position`` holding ``string``; nothing deletes/pops/rewrites another key;
 (3) index:    the sorted list of begins gets ``position`` at bisect_right(begins, position);
 (4) guards:   the collision guards, in the linear normal form, are the exact overlap
               predicates under the facts bisect provides (b1 <= position < b2):
               predecessor  position < b1 + len(chunk[b1])   (b1 = begins[bisect_right-1]),
               successor    b2 < position + len(string)  AND the successor is non-empty
               (insert has no emptiness guard, so stored chunks may be empty);
               every non-raising path over a non-empty map passed both tests;
 (5) tobytes:  walks chunks in position order and emits fill*(offset-begin), the chunk,
               then begin := offset + len(chunk); starts at 0; joins in order;
 (6) append/extend insert at the cursor;
 (7) a rejected insert leaves the buffer untouched: on every raising path nothing (cursor,
     chunk map, index) is written before the raise.
The sparse-array behaviour over all histories (an inductive invariant) is not decided.

Round 4: (R8-buffer-per-pack) Packet.pack hands pack_impl a buffer made for that call.

Round 5: asserts are read as python -O reads them; the slot bisect_left with a successor test
blind to the successor's length; iterating the index list in tobytes is a violation when
insert() lets the index repeat a position.

Round 6: both bisects used and the chunk at the position compared with neither neighbour.
Round 7: appending at the end of the begins list is the sorted slot when the path knows that the
position is not below the last begin.
Round 8: extend inserts chunk by chunk; successors walked in a loop must not let empty ones through.
"""
import ast

from .. import Undecided
from ..expr import canon, lin, lin_sub, cmp_form, conj, negate, call_name, unparse, parse_expr
from ..model import stmt_text
from ..tt import Table

EXPLANATION = __doc__
LEVEL_RULE = 'one obligation per (clause, path | guard | statement) of Fragments.insert / tobytes / append / extend'
ASSUMPTIONS = [
    'bisect_right(a, x) returns the index after the last element <= x of a sorted list (stdlib table)',
    'sorted(dict.items()) orders chunks by position; list.insert(i, x) keeps the other elements',
    'a negative list index wraps around (begins[-1] is the last begin): the b1 <= position literal covers bisect == 0',
]

BEG = 'self.begin_of_fragments'


def form_of(src):
    return cmp_form(parse_expr(src))


def neg_form(f):
    return {k: -v for k, v in f.items()}


def check(ctx, parts=('cursor', 'store', 'index', 'guards', 'atomic', 'tobytes', 'append', 'fill')):
    repo = ctx.repo
    fr = repo.cls('Fragments')
    ins = fr.methods.get('insert')
    tob = fr.methods.get('tobytes')
    if ins is None or tob is None:
        raise Undecided('anchor Fragments.insert / Fragments.tobytes not found')
    params = [a.arg for a in ins.node.args.args]
    if len(params) < 3:
        raise Undecided('Fragments.insert does not take (self, position, string)')
    POS, STR = params[1], params[2]
    # discover the names of the two containers from __init__ (dict = chunk map, list = begins)
    init = fr.methods.get('__init__')
    cmap = begins = None
    if init is not None:
        for n in ast.walk(init.node):
            if isinstance(n, ast.Assign) and isinstance(n.targets[0], ast.Attribute) and isinstance(n.targets[0].value, ast.Name) and n.targets[0].value.id == 'self':
                if isinstance(n.value, ast.Dict) and not n.value.keys:
                    cmap = n.targets[0].attr
                elif isinstance(n.value, ast.List) and not n.value.elts:
                    begins = n.targets[0].attr
    if cmap is None or begins is None:
        raise Undecided('cannot identify the chunk map / begins list in Fragments.__init__')
    CM, BG = 'self.' + cmap, 'self.' + begins
    ctx.unit('functions', 4)

    w = repo.walker(inline_depth=0, max_paths=ctx.max_paths)
    # the buffer's guarantees hold under every interpreter configuration: assert statements are
    # read as python -O reads them (absent), so a collision test written as an assert is no test
    w.strip_asserts = True
    has_asserts = any(isinstance(n, ast.Assert) for n in ast.walk(ins.node))
    paths = w.paths(ins.node, cls=fr)
    ctx.unit('paths', len(paths))
    ok_paths = [p for p in paths if not p.raises()]
    bad_paths = [p for p in paths if p.raises()]

    I = 'bisect_right(%s, %s)' % (BG, POS)
    b1 = canon(parse_expr('%s[%s - 1]' % (BG, I)))
    b2 = canon(parse_expr('%s[%s - 1 + 1]' % (BG, I)))
    e1_terms = {b1: 1, canon(parse_expr('len(%s[%s[%s - 1]])' % (CM, BG, I))): 1}
    L = 'len(%s)' % STR
    pred_form = lin_sub({POS: 1}, e1_terms)                  # position - e1  < 0
    pred_lo = lin_sub({b1: 1}, {POS: 1})                     # b1 - position <= 0
    succ_form = lin_sub({b2: 1}, {POS: 1, L: 1})             # b2 - position - L < 0
    nonempty_succ = canon(parse_expr('len(%s[%s[%s - 1 + 1]])' % (CM, BG, I)))

    # Round 8: successors walked in a loop that lets the empty ones pass: an empty chunk stored strictly
    # inside the range of the new chunk stays in the index, between this chunk's begin and end
    if 'guards' in parts:
        for lp_ in [n for n in ast.walk(ins.node) if isinstance(n, (ast.While, ast.For))]:
            tests = [n for n in ast.walk(lp_) if isinstance(n, ast.If) and any(isinstance(x, ast.Raise) for b in n.body for x in ast.walk(b))
                     and CM in canon(n.test) and not isinstance(n.test, ast.Compare)]
            len_tests = [n for n in ast.walk(lp_) if isinstance(n, ast.If) and any(isinstance(x, ast.Raise) for b in n.body for x in ast.walk(b))
                         and ('len(%s[' % CM) in canon(n.test) and L not in canon(n.test) and POS not in canon(n.test)]
            if tests or len_tests:
                t_ = (tests or len_tests)[0]
                ctx.violation('R8-collision-guards', ins, 'loop over the successors: if %s: raise' % canon(t_.test)[:60], 'a successor that begins inside the range of the new chunk is let through when its chunk is empty: the empty chunk then lies strictly inside a stored chunk, where the predecessor test of a later insert lands on it (an overlapping chunk is accepted) and tobytes steps backwards (too much padding)', t_.lineno, clause='4', witness=True)

    # ---------------------------------------------------------- (1) cursor
    for p in (ok_paths if 'cursor' in parts else []):
        st = [e for e in p.effects if e.kind == 'store_attr' and canon(e.obj) == 'self' and e.name == 'current_offset']
        label = 'path [%s]' % '; '.join(p.guard_texts())
        if not st:
            ctx.violation('R8-cursor', ins, label, 'a non-raising path does not move the cursor', ins.node.lineno, clause='1')
            continue
        v = st[-1].value
        if lin(v) == {POS: 1, L: 1}:
            ctx.holds('R8-cursor', ins, 'self.current_offset = %s' % canon(v), 'cursor := position + len(string)', st[-1].lineno, clause='1')
        else:
            ctx.violation('R8-cursor', ins, 'self.current_offset = %s' % canon(v), 'cursor is not position + len(string) on path [%s]' % '; '.join(p.guard_texts()), st[-1].lineno, clause='1')

    # ---------------------------------------------------------- (2) store
    mutators = ('pop', 'popitem', 'clear', 'update', 'setdefault', '__delitem__', '__setitem__')
    for p in (ok_paths if 'store' in parts else []):
        subs = [e for e in p.all_effects() if e.kind == 'store_sub' and canon(e.obj) == CM]
        others = [e for e in p.all_effects() if (e.kind == 'del' and CM in canon(e.obj)) or
                  (e.kind == 'call' and isinstance(e.call.func, ast.Attribute) and canon(e.call.func.value) == CM and e.call.func.attr in mutators) or
                  (e.kind == 'store_attr' and canon(e.obj) == 'self' and e.name == cmap)]
        label = 'path [%s]' % '; '.join(p.guard_texts())
        if others:
            ctx.violation('R8-single-store', ins, others[0].text(), 'the chunk map is mutated other than by storing the new chunk: bytes stored earlier can be altered or dropped', others[0].lineno, clause='2')
        if len(subs) != 1:
            ctx.violation('R8-single-store', ins, label, '%d stores into the chunk map on a non-raising path, expected exactly one' % len(subs), ins.node.lineno, clause='2')
            continue
        s = subs[0]
        if canon(s.name) == POS and canon(s.value) == STR:
            ctx.holds('R8-single-store', ins, s.text(), 'one store, keyed by position, holding the chunk unchanged', s.lineno, clause='2')
        else:
            ctx.violation('R8-single-store', ins, s.text(), 'the chunk is stored under key %s with value %s, expected [%s] = %s' % (canon(s.name), canon(s.value), POS, STR), s.lineno, clause='2')

    # ---------------------------------------------------------- (3) sorted index
    for p in (ok_paths if 'index' in parts else []):
        calls = [e for e in p.all_effects() if e.kind == 'call' and isinstance(e.call.func, ast.Attribute) and canon(e.call.func.value) == BG]
        muts = [e for e in calls if e.call.func.attr in ('insert', 'append', 'extend', 'remove', 'pop', 'sort', 'reverse', 'clear')]
        insorts = [e for e in p.all_effects() if e.kind == 'call' and call_name(e.call) in ('insort', 'insort_right', 'bisect.insort', 'bisect.insort_right')
                   and len(e.call.args) >= 2 and canon(e.call.args[0]) == BG and canon(e.call.args[1]) == POS]
        label = 'path [%s]' % '; '.join(p.guard_texts())
        if insorts and not muts:
            ctx.holds('R8-sorted-index', ins, insorts[0].text(), 'insort keeps the begins sorted', insorts[0].lineno, clause='3')
            continue
        if len(muts) != 1 or muts[0].call.func.attr != 'insert' or len(muts[0].call.args) != 2:
            ctx.violation('R8-sorted-index', ins, label + ' ' + '; '.join(m.text() for m in muts), 'the begins list is not updated by exactly one insert(index, position)', ins.node.lineno, clause='3')
            continue
        m = muts[0]
        idx, val = m.call.args
        if canon(val) != POS:
            ctx.violation('R8-sorted-index', ins, m.text(), 'the value inserted in the begins list is not the position', m.lineno, clause='3')
        elif lin(idx) == {I: 1}:
            ctx.holds('R8-sorted-index', ins, m.text(), 'insertion index == bisect_right(begins, position)', m.lineno, clause='3')
        elif canon(idx) == 'bisect_left(%s, %s)' % (BG, POS):
            # slot = bisect_left: the successor begins[slot] may begin exactly at position (an empty
            # chunk stored there by the field before: Em, an empty Data).  A successor test that
            # does not look at the length of that chunk rejects the next in-order append
            J = canon(idx)
            succ = '%s[%s]' % (BG, J)
            blind = False
            for bp in bad_paths:
                gts = bp.guard_texts()
                if any(succ in g and L in g for g in gts) and not any('len(%s[%s])' % (CM, succ) in g for g in gts):
                    blind = True
            if blind:
                ctx.violation('R8-sorted-index', ins, m.text(), 'the slot is bisect_left(begins, position), so the successor %s may be an empty chunk that begins exactly at position; the successor test does not look at its length and rejects a chunk appended right after an empty one (false collision)' % succ, m.lineno, clause='3', witness=True)
            else:
                ctx.undecided('R8-sorted-index', ins, m.text(), 'slot computed with bisect_left: the neighbour tests are not analysed for this form', m.lineno, clause='3')
        elif canon(idx) == 'len(%s)' % BG:
            # the end of the list is the sorted slot exactly when no begin is greater than position:
            # the list is empty, or position is not below its last (largest) begin
            from ..model import path_facts
            facts = set(p.guard_texts()) | set(path_facts(p))
            last = '%s[(-1)]' % BG
            at_tail = {'not %s' % BG, 'not len(%s)' % BG, 'not (%s < %s)' % (POS, last), 'not %s < %s' % (POS, last), '%s >= %s' % (POS, last), '%s <= %s' % (last, POS),
                       'not (%s > %s)' % (last, POS), 'not %s > %s' % (last, POS)}
            import re as _re
            for g in list(facts):
                mm = _re.match(r'^\((.*) (<=|<) 0\)$', g)
                if mm:
                    try:
                        f_ = lin(ast.parse(mm.group(1), mode='eval').body)
                    except SyntaxError:
                        continue
                    if f_ == {last: 1, POS: -1}:
                        facts.add('%s <= %s' % (last, POS))
            if facts & at_tail:
                ctx.holds('R8-sorted-index', ins, m.text(), 'appended at the end only when no stored begin is greater than the position (%s)' % sorted(facts & at_tail)[0], m.lineno, clause='3')
            elif any((POS in g and last in g) for g in facts):
                ctx.undecided('R8-sorted-index', ins, m.text(), 'appended at the end under a test the rule does not read as "position is not below the last begin"', m.lineno, clause='3')
            else:
                ctx.violation('R8-sorted-index', ins, m.text(), 'the position is appended at the end of the begins list whatever its value: the begins list loses its order', m.lineno, clause='3', witness=True)
        elif I in lin(idx) or 'bisect' in canon(idx):
            ctx.violation('R8-sorted-index', ins, m.text(), 'insertion index %s is not bisect_right(begins, position): the begins list loses its order' % canon(idx), m.lineno, clause='3')
        else:
            ctx.undecided('R8-sorted-index', ins, m.text(), 'insertion index %s: cannot see that it is the sorted slot of the position' % canon(idx), m.lineno, clause='3')

    # ---------------------------------------------------------- (3') both bisects: the chunk AT position
    if 'guards' in parts or 'index' in parts:
        texts = set()
        for p in paths:
            for g in p.guard_texts():
                texts.add(g)
            for e in p.all_effects():
                texts.add(e.text())
        blob = ' '.join(texts)
        BL, BR = 'bisect_left(%s, %s)' % (BG, POS), 'bisect_right(%s, %s)' % (BG, POS)
        if BL in blob and BR in blob:
            strictly_before = '%s[(%s + -1)]' % (BG, BL) in blob
            strictly_after = '%s[%s]' % (BG, BR) in blob or '%s[(%s)]' % (BG, BR) in blob
            at_position = ('%s[%s]' % (BG, BL) in blob) or ('%s[(%s + -1)]' % (BG, BR) in blob) or ('(%s in %s)' % (POS, CM) in blob) or ('%s.get(%s' % (CM, POS) in blob)
            if strictly_before and strictly_after and not at_position:
                ctx.violation('R8-collision-guards', ins, 'neighbours: %s[bisect_left - 1] (strictly before) and %s[bisect_right] (strictly after)' % (BG, BG), 'a chunk that begins exactly at the position is compared with neither neighbour test: inserting there replaces it silently (its bytes are dropped, no collision is raised)', ins.node.lineno, clause='4', witness=True)

    # ---------------------------------------------------------- (4) collision guards
    # insert looks at its arguments only through comparisons of a handful of quantities: decide
    # the raise / store outcome in every consistent situation (bistat/tt.py)
    if 'guards' in parts:
        LB = 'len(%s)' % BG
        LM = 'len(%s)' % CM
        T = Table()
        T.quantity('chunks', {LM: 1}, thresholds=(1,))
        T.quantity('chunks', {LB: 1})
        T.truthy(CM, 'chunks')
        T.truthy(BG, 'chunks')
        nonempty = lambda s: s.ge('chunks', 1)
        T.quantity('slot', {I: 1}, thresholds=(1,))                                    # slot = bisect_right(begins, position)
        T.quantity('slot - chunks', {I: 1, LB: -1}, thresholds=(0,))
        has_pred = lambda s: s.ge('slot', 1)
        has_succ = lambda s: s.lt('slot - chunks', 0)
        T.quantity('b1 - position', pred_lo, defined=nonempty, thresholds=(1,))          # b1 = begins[slot - 1]
        T.quantity('position - end of b1', pred_form, defined=nonempty, thresholds=(0,))
        T.quantity('b2 - position - len(string)', succ_form, defined=has_succ, thresholds=(0,))   # b2 = begins[slot]
        T.quantity('len(chunk b2)', {nonempty_succ: 1}, defined=has_succ, thresholds=(1,))
        T.truthy('%s[%s]' % (CM, b2), 'len(chunk b2)')
        T.quantity('len(string)', {L: 1}, thresholds=(1,))
        T.truthy(L, 'len(string)')
        T.truthy(STR, 'len(string)')
        live = [p for p in paths if not (p.raises() and p.end[1] is not None and call_name(p.end[1]) == 'AssertionError')]
        T.scan(live)

        def consistent(s):
            if not nonempty(s):
                return not has_pred(s) and not has_succ(s)
            if not (has_pred(s) or has_succ(s)):
                return False
            # bisect: begins[slot - 1] <= position when it exists; otherwise begins[-1] is the last
            # begin and every begin is after position
            if s.lt('b1 - position', 1) != has_pred(s):
                return False
            # b2 = begins[slot] > position: an empty string cannot reach it
            if has_succ(s) and s.lt('len(string)', 1) and s.lt('b2 - position - len(string)', 0):
                return False
            return True

        def hits_pred(s):
            return nonempty(s) and s.lt('b1 - position', 1) and s.lt('position - end of b1', 0)

        def hits_succ(s, strict=True):
            return has_succ(s) and s.lt('b2 - position - len(string)', 0) and (not strict or s.ge('len(chunk b2)', 1))

        n_rows = 0
        reported = set()
        try:
            for sit in T.situations(consistent):
                n_rows += 1
                tk = T.taken(live, sit)
                outcomes = {o for _, o in tk}
                label = 'situation [%s]' % sit.show()
                if len(outcomes) != 1:
                    ctx.undecided('R8-collision-guards', ins, label, '%d paths are enabled (%s): the path summaries do not partition this situation' % (len(tk), sorted(outcomes)), ins.node.lineno, clause='4')
                    continue
                out = outcomes.pop()
                want = 'raise' if (hits_pred(sit) or hits_succ(sit)) else 'return'
                if out == want:
                    ctx.holds('R8-collision-guards', ins, label + ' -> ' + out, 'raises exactly on overlap with a neighbour', ins.node.lineno, clause='4')
                    continue
                key = None
                if out == 'crash':
                    kind = 'looks at a neighbour chunk that does not exist in this situation (IndexError instead of %s)' % want
                elif out == 'raise':
                    if hits_succ(sit, strict=False):
                        # the only thing wrong is that the successor is empty
                        if 'F5' in reported:
                            continue
                        reported.add('F5')
                        label = 'successor test: raises when b2 < position + len(string) although the chunk at b2 is empty'
                        kind = 'the successor overlap test does not consult the length of the successor chunk: an empty chunk (what Em().pack appends) makes a later non-overlapping insert raise'
                        key = 'Fragments.insert: successor overlap test ignores that the successor chunk may be empty'
                    else:
                        kind = 'raises a collision although the new chunk overlaps no neighbour'
                else:
                    kind = 'stores the chunk although it overlaps %s' % ('the chunk that begins at or before position' if hits_pred(sit) else 'the chunk that begins after position')
                    if has_asserts:
                        kind += ' (the assert statements of insert do not exist under python -O / PYTHONOPTIMIZE)'
                if key is None:
                    # one report per kind of mistake, with the first situation as the witness
                    if kind in reported:
                        continue
                    reported.add(kind)
                ctx.violation('R8-collision-guards', ins, label + (' -> ' + out if key is None else ''), kind, ins.node.lineno, clause='4', key=key)
        except Undecided as e:
            ctx.undecided('R8-collision-guards', ins, 'guards of Fragments.insert', str(e), ins.node.lineno, clause='4')
        ctx.unit('decision_table_rows', n_rows)

    # ---------------------------------------------------------- (7) a raise leaves the buffer untouched
    if 'atomic' in parts:
        for p in bad_paths:
            exc = p.end[1]
            if exc is not None and call_name(exc) == 'AssertionError':
                continue
            touched = [e for e in p.all_effects() if (e.kind == 'store_attr' and canon(e.obj) == 'self') or (e.kind == 'store_sub' and canon(e.obj) in (CM, BG))
                       or (e.kind == 'call' and isinstance(e.call.func, ast.Attribute) and canon(e.call.func.value) in (CM, BG) and e.call.func.attr in ('insert', 'append', 'pop', 'remove', 'clear', 'update', 'sort'))]
            label = 'raising path [%s]' % '; '.join(p.guard_texts())[:160]
            if touched:
                ctx.violation('R8-raise-leaves-state', ins, '%s: %s' % (label, touched[0].text()), 'the buffer (cursor / chunk map / index) is modified before the collision is raised: the rejected insert leaves a moved cursor or a stored chunk behind', touched[0].lineno, clause='7')
            else:
                ctx.holds('R8-raise-leaves-state', ins, label, 'nothing is written before the raise', ins.node.lineno, clause='7')

    # ---------------------------------------------------------- (5) tobytes
    if 'tobytes' in parts:
        check_tobytes(ctx, repo, fr, tob, CM)

    # ---------------------------------------------------------- (6) append / extend
    for name in (('append', 'extend') if 'append' in parts else ()):
        fi = fr.methods.get(name)
        if fi is None:
            ctx.undecided('R8-append-at-cursor', (fr.file, 'Fragments.' + name), name, 'method not found')
            continue
        # follow one level of delegation (extend -> append -> insert)
        w1 = repo.walker(inline_depth=2, max_paths=ctx.max_paths, keep={'insert'})
        calls = []
        npaths = 0
        for p in w1.paths(fi.node, cls=fr):
            if p.raises():
                continue
            npaths += 1
            here = [e for e in p.all_effects() if e.kind == 'call' and isinstance(e.call.func, ast.Attribute) and e.call.func.attr == 'insert'
                    and canon(e.call.func.value) == 'self']
            loops = [e for e in p.effects if e.kind == 'loop']
            if name == 'extend' and loops:
                # every pass of the loop inserts
                for bp in loops[0].sub['body']:
                    if not bp.raises() and not [e for e in bp.all_effects() if e.kind == 'call' and isinstance(e.call.func, ast.Attribute) and e.call.func.attr == 'insert']:
                        ctx.violation('R8-append-at-cursor', fi, 'extend: loop pass [%s]' % '; '.join(bp.guard_texts())[:120], 'an element of the iterable is not inserted', fi.node.lineno, clause='6')
            elif name == 'extend' and here and not loops and any(isinstance(x, ast.Call) and isinstance(x.func, ast.Attribute) and x.func.attr == 'join'
                                                                    for e_ in here for a_ in e_.call.args[1:2] for x in ast.walk(a_)):
                # Round 8: the chunks glued into one insert: each chunk is no longer checked and stored on
                # its own -- when a later one collides the earlier ones, which fit, are lost with it (and
                # the cursor stays), and an empty iterable now inserts an empty chunk
                ctx.violation('R8-append-at-cursor', fi, 'extend: %s' % canon(here[0].call)[:100], 'the chunks of the iterable are joined and inserted as one chunk instead of one insert per chunk at the moving cursor: a collision of a later chunk discards the earlier ones too, and extend([]) inserts an empty chunk (which is refused on an occupied cell)', here[0].lineno, clause='6', witness=True)
            elif not here:
                ctx.violation('R8-append-at-cursor', fi, '%s: path [%s]' % (name, '; '.join(p.guard_texts())[:120]), 'a path returns without inserting the chunk', fi.node.lineno, clause='6')
            calls.extend(here)
        if not calls:
            ctx.undecided('R8-append-at-cursor', fi, name, 'no self.insert(...) reached from %s' % name, fi.node.lineno)
            continue
        seen_txt = set()
        for e in calls:
            c = e.call
            t = canon(c)
            if t in seen_txt:
                continue
            seen_txt.add(t)
            if len(c.args) >= 2 and canon(c.args[0]) == 'self.current_offset':
                ctx.holds('R8-append-at-cursor', fi, '%s: %s' % (name, t), 'inserts at the cursor', e.lineno, clause='6')
            else:
                ctx.violation('R8-append-at-cursor', fi, '%s: %s' % (name, t), 'does not insert at the current cursor', e.lineno, clause='6')
    if 'fill' not in parts:
        if 'guards' in parts:
            ctx.floor('decision table rows of Fragments.insert', ctx.units.get('decision_table_rows', 0), 30)
        return
    # default fill
    init_fill = None
    a = init.node.args
    defaults = dict(zip([x.arg for x in a.args][len(a.args) - len(a.defaults):], a.defaults))
    for n in ast.walk(init.node):
        if isinstance(n, ast.Assign) and isinstance(n.targets[0], ast.Attribute) and n.targets[0].attr == 'fill':
            v = n.value
            if isinstance(v, ast.Name) and v.id in defaults:
                v = defaults[v.id]
            init_fill = v
    if init_fill is not None and isinstance(init_fill, ast.Constant) and init_fill.value == b'.':
        ctx.holds('R8-fill-default', init, 'fill defaults to %s' % canon(init_fill), "holes are rendered as b'.'", init.node.lineno, clause='5')
    else:
        ctx.violation('R8-fill-default', init, 'fill defaults to %s' % (canon(init_fill) if init_fill is not None else '?'), "the default fill is not b'.'", init.node.lineno, clause='5')
    if 'guards' in parts:
        ctx.floor('decision table rows of Fragments.insert', ctx.units.get('decision_table_rows', 0), 30)
        check_buffer_per_pack(ctx)
    ctx.trust(*ASSUMPTIONS)


def check_buffer_per_pack(ctx):
    """the rules above describe one buffer filled by one pack: Packet.pack hands pack_impl a buffer
    made for that call.  A buffer kept between calls is shared by every pack that is running --
    a pack that starts while another is in progress (a descriptor or a size callable that packs a
    sub-packet, another thread) wipes or interleaves the chunks of the first"""
    repo = ctx.repo
    rule = 'R8-buffer-per-pack'
    pk = repo.cls('Packet')
    fi = pk.methods.get('pack')
    if fi is None:
        raise Undecided('anchor Packet.pack not found')
    n = 0
    for p in repo.walker().paths(fi.node, cls=pk):
        for e in p.effects:
            if e.kind == 'call' and isinstance(e.call.func, ast.Attribute) and e.call.func.attr == 'pack_impl':
                a = e.call.args[0] if e.call.args else next((k.value for k in e.call.keywords if k.arg == 'fragments'), None)
                n += 1
                st = 'Packet.pack: pack_impl(%s, ...)' % (canon(a) if a is not None else None)
                if isinstance(a, ast.Call) and (call_name(a) or '').split('.')[-1] == 'Fragments':
                    ctx.holds(rule, fi, st, 'a buffer of its own for every pack', e.lineno, clause='1')
                elif isinstance(a, ast.Name) and repo.module_level_name(fi.module, a.id):
                    ctx.violation(rule, fi, st, 'one buffer kept at module level serves every pack: a pack that runs while another is in progress (a callable that packs a sub-packet, another thread) clears or mixes the chunks of the first', e.lineno, clause='1', witness=True)
                else:
                    ctx.undecided(rule, fi, st, 'cannot see that the buffer is made for this call', e.lineno, clause='1')
    if not n:
        ctx.undecided(rule, fi, 'Packet.pack', 'no pack_impl call found', fi.node.lineno, clause='1')


def _index_may_repeat(repo, fr, CM):
    """insert() never tests whether the position is already a key of the chunk map (an empty chunk
    passes both overlap tests), and always adds the position to the index"""
    ins = fr.methods.get('insert')
    if ins is None:
        return False
    for n in ast.walk(ins.node):
        if isinstance(n, ast.Compare) and any(isinstance(o, (ast.In, ast.NotIn)) for o in n.ops) and any(canon(c) in (CM, BEG) for c in n.comparators):
            return False
        if isinstance(n, ast.Call) and isinstance(n.func, ast.Attribute) and n.func.attr in ('get', '__contains__', 'setdefault') and canon(n.func.value) == CM:
            return False
    return any(isinstance(n, ast.Call) and isinstance(n.func, ast.Attribute) and n.func.attr in ('insert', 'append') and canon(n.func.value) == BEG for n in ast.walk(ins.node)) or \
        any(isinstance(n, ast.Call) and call_name(n) == 'insort' and n.args and canon(n.args[0]) == BEG for n in ast.walk(ins.node))


def check_tobytes(ctx, repo, fr, tob, CM):
    """the rendering emits, for the chunks in position order, fill * (offset - end of the previous
    chunk) and then the chunk, starting at 0, and joins the emitted parts in that order.  The parts
    may be collected in a list (append) or produced by a generator method (yield)."""
    rule = 'R8-tobytes'
    w = repo.walker()
    paths = w.paths(tob.node, cls=fr)
    for pp in paths:
        for e in pp.all_effects():
            if (e.kind == 'store_attr' and canon(e.obj) == 'self') or (e.kind == 'setattr' and canon(e.obj) == 'self') or \
                    (e.kind == 'store_sub' and canon(e.obj).startswith('self.')):
                ctx.violation(rule, tob, 'tobytes: %s' % e.text()[:100], 'the rendering keeps state on the buffer (memo): a later insert that does not change what the memo is keyed on returns stale bytes', e.lineno, clause='5')
    live = [pp for pp in paths if not pp.raises()]
    # where are the parts produced?  a generator method consumed by join, or this function
    producer, emit_kind, prod_paths = tob, 'append', None
    if len(live) == 1 and not any(e.kind == 'loop' for e in live[0].effects):
        ret = live[0].ret()
        if isinstance(ret, ast.Call) and isinstance(ret.func, ast.Attribute) and ret.func.attr == 'join' and len(ret.args) == 1:
            arg = ret.args[0]
            if isinstance(arg, ast.Call) and isinstance(arg.func, ast.Attribute) and canon(arg.func.value) == 'self' and not arg.args and not arg.keywords:
                g = repo.method(fr, arg.func.attr)
                if g is not None and any(isinstance(n, (ast.Yield, ast.YieldFrom)) for n in ast.walk(g.node)):
                    if not (isinstance(ret.func.value, ast.Constant) and ret.func.value.value == b''):
                        ctx.violation(rule, tob, 'return %s' % canon(ret), "the parts are not joined with b''", tob.node.lineno, clause='5')
                    producer, emit_kind = g, 'yield'
                    prod_paths = [pp for pp in repo.walker().paths(g.node, cls=fr) if not pp.raises()]
                    for pp in prod_paths:
                        for e in pp.all_effects():
                            if (e.kind in ('store_attr', 'setattr') and canon(e.obj) == 'self') or (e.kind == 'store_sub' and canon(e.obj).startswith('self.')):
                                ctx.violation(rule, g, '%s: %s' % (g.qual, e.text()[:100]), 'the rendering keeps state on the buffer', e.lineno, clause='5')
    if prod_paths is None:
        prod_paths = live
    full = [pp for pp in prod_paths if any(e.kind == 'loop' for e in pp.effects)]
    short = [pp for pp in prod_paths if not any(e.kind == 'loop' for e in pp.effects)]
    for pp in short:
        ctx.violation(rule, producer, 'tobytes path [%s] returns %s' % ('; '.join(pp.guard_texts())[:120], canon(pp.ret())[:60] if pp.ret() is not None else None),
                      'a path returns bytes without walking the stored chunks', producer.node.lineno, clause='5')
    if len(full) != 1:
        if not short:
            ctx.undecided(rule, producer, 'Fragments.tobytes', 'expected a single rendering path, found %d' % len(full), producer.node.lineno)
        return
    p = full[0]
    loops = [e for e in p.effects if e.kind == 'loop']
    if len(loops) != 1 or loops[0].sub['kind'] != 'for':
        ctx.undecided(rule, producer, 'Fragments.tobytes', 'expected one for loop over the chunks', producer.node.lineno)
        return
    lp = loops[0]
    it = canon(lp.sub['iter'])
    n = lp.sub['phi']
    item = '<item of %d>' % n
    if it == 'sorted(%s.items())' % CM:
        K, V = '%s[0]' % item, '%s[1]' % item
    elif it in ('sorted(%s)' % CM, 'sorted(%s.keys())' % CM):
        K, V = item, '%s[%s]' % (CM, item)
    elif it in ('%s.items()' % CM, CM, '%s.keys()' % CM, '%s.values()' % CM) or it.startswith(('reversed(sorted(%s' % CM, 'sorted(%s.items(), reverse' % CM, 'sorted(%s, reverse' % CM)):
        ctx.violation(rule, producer, 'for ... in %s' % it, 'chunks are not walked in position order (sorted items / keys of the chunk map)', lp.lineno, clause='5', witness=True)
        return
    elif it == BEG and _index_may_repeat(repo, fr, CM):
        ctx.violation(rule, producer, 'for ... in %s' % it, 'the sorted index is not the key set of the chunk map: insert() accepts a second chunk at the position of an empty one, which replaces the map entry and adds the position to the index again -- the chunk is emitted twice', lp.lineno, clause='5', witness=True)
        return
    else:
        ctx.undecided(rule, producer, 'for ... in %s' % it, 'cannot see that the chunks are walked in position order (not sorted items / keys of the chunk map)', lp.lineno, clause='5')
        return
    ctx.holds(rule, producer, 'for ... in %s' % it, 'chunks walked in position order', lp.lineno, clause='5')
    body = lp.sub['body']
    if len(body) != 1 or body[0].end[0] != 'fall':
        ctx.undecided(rule, producer, 'loop body', 'loop body has branches or exits early', lp.lineno)
        return
    b = body[0]
    if emit_kind == 'yield':
        parts_ = [e.value for e in b.effects if e.kind == 'yield']
        emits = [e for e in b.effects if e.kind == 'yield']
    else:
        emits = [e for e in b.effects if e.kind == 'call' and isinstance(e.call.func, ast.Attribute) and e.call.func.attr == 'append' and len(e.call.args) == 1]
        parts_ = [e.call.args[0] for e in emits]
        acc_var = None
        if not emits:
            # parts += [hole, chunk]   /   parts.extend([hole, chunk])
            for c in lp.sub['carried']:
                v = b.env.get(c)
                if isinstance(v, ast.BinOp) and isinstance(v.op, ast.Add) and canon(v.left) == '%s@phi%d' % (c, n) and isinstance(v.right, (ast.List, ast.Tuple)):
                    parts_, acc_var = list(v.right.elts), c
            ext = [e for e in b.effects if e.kind == 'call' and isinstance(e.call.func, ast.Attribute) and e.call.func.attr == 'extend' and len(e.call.args) == 1
                   and isinstance(e.call.args[0], (ast.List, ast.Tuple))]
            if not parts_ and len(ext) == 1:
                parts_, emits = list(ext[0].call.args[0].elts), [ext[0], ext[0]]
            if acc_var is not None:
                emit_kind = 'augmented'
                class _E:            # line numbers for the reports
                    lineno = lp.lineno
                emits = [_E, _E]
    # the chunk of an item of the sorted items is also CM[its position]
    V_ALT = ('%s[%s]' % (CM, K)) if it == 'sorted(%s.items())' % CM else None
    begin_var = None
    for c in lp.sub['carried']:
        v = b.env.get(c)
        if v is not None and lin(v) in ({K: 1, 'len(%s)' % V: 1}, {K: 1, 'len(%s)' % V_ALT: 1}):
            begin_var = c
    desc = '; '.join(e.text() if e.kind != 'yield' else 'yield %s' % canon(e.value) for e in b.effects) or '; '.join(canon(x) for x in parts_)
    if begin_var is None:
        ctx.violation(rule, producer, 'loop body: %s' % desc, 'no variable is advanced to offset + len(chunk) after each chunk', lp.lineno, clause='5')
        return
    B = '%s@phi%d' % (begin_var, n)
    ok = True
    if len(parts_) != 2 or (emit_kind == 'append' and hasattr(emits[0], 'call') and canon(emits[0].call.func.value) != canon(emits[1].call.func.value)):
        ctx.violation(rule, producer, 'loop body: %s' % desc, 'expected two parts per chunk (fill, then chunk)', lp.lineno, clause='5')
        return
    gap, chunk = parts_
    good_gap = False
    # the hole rendered by a one-expression method of the buffer: read its expression
    if isinstance(gap, ast.Call) and isinstance(gap.func, ast.Attribute) and canon(gap.func.value) == 'self' and len(gap.args) == 1 and not gap.keywords:
        hm = repo.method(fr, gap.func.attr)
        if hm is not None:
            body_ = [x for x in hm.node.body if not (isinstance(x, ast.Expr) and isinstance(x.value, ast.Constant))]
            ps_ = [a_.arg for a_ in hm.node.args.args]
            if len(body_) == 1 and isinstance(body_[0], ast.Return) and body_[0].value is not None and len(ps_) == 2:
                from ..expr import subst
                gap = subst(body_[0].value, {ps_[1]: gap.args[0]})
    if isinstance(gap, ast.BinOp) and isinstance(gap.op, ast.Mult):
        for f, m in ((gap.left, gap.right), (gap.right, gap.left)):
            if canon(f) == 'self.fill' and lin(m) == {K: 1, B: -1}:
                good_gap = True
    if not good_gap:
        ok = ctx.violation(rule, producer, 'hole: %s' % canon(gap), 'the hole before a chunk is not rendered as fill * (offset - begin)', emits[0].lineno, clause='5')
    if canon(chunk) not in (V, V_ALT):
        ok = ctx.violation(rule, producer, 'chunk: %s' % canon(chunk), 'the part emitted after the hole is not the stored chunk', emits[1].lineno, clause='5')
    # initial value of begin
    init_v = None
    for s_ in producer.node.body:
        if isinstance(s_, ast.Assign) and isinstance(s_.targets[0], ast.Name) and s_.targets[0].id == begin_var:
            init_v = s_.value
            break
    if not (isinstance(init_v, ast.Constant) and init_v.value == 0 and init_v.value is not False):
        ok = ctx.violation(rule, producer, '%s starts at %s' % (begin_var, canon(init_v) if init_v is not None else '?'), 'the walk does not start at position 0', producer.node.lineno, clause='5')
    if emit_kind == 'augmented':
        ret = p.ret()
        want_acc = '%s@phi%dout' % (acc_var, n)
        entry = lp.sub['entry'].get(acc_var)
        if not (ret is not None and isinstance(ret, ast.Call) and isinstance(ret.func, ast.Attribute) and ret.func.attr == 'join' and isinstance(ret.func.value, ast.Constant)
                and ret.func.value.value == b'' and len(ret.args) == 1 and canon(ret.args[0]) == want_acc and isinstance(entry, ast.List) and not entry.elts):
            ok = ctx.violation(rule, producer, 'return %s' % (canon(ret) if ret is not None else None), "the result is not b''.join(parts) of the parts collected from an empty list in walk order", producer.node.lineno, clause='5')
    if emit_kind == 'append':
        acc = canon(emits[0].call.func.value)
        ret = p.ret()
        if not (ret is not None and isinstance(ret, ast.Call) and isinstance(ret.func, ast.Attribute) and ret.func.attr == 'join'
                and isinstance(ret.func.value, ast.Constant) and ret.func.value.value == b'' and len(ret.args) == 1 and canon(ret.args[0]) == acc):
            ok = ctx.violation(rule, producer, 'return %s' % (canon(ret) if ret is not None else None), "the result is not b''.join(parts) of the parts in walk order", producer.node.lineno, clause='5')
    if ok:
        ctx.holds(rule, producer, 'per chunk: %s; %s := %s' % (desc[:160], begin_var, canon(b.env[begin_var])),
                  'fill*(offset-begin), chunk, begin := offset+len(chunk), joined in order from 0', lp.lineno, clause='5')
