"""C05 -- integer fields encode and decode exact two's-complement values.

Rule families R9 (finite tables) and R1 (codec parameter agreement):

 (a) struct-code table of Int._compile: every key n maps to a code of *standard* size n
     (b/B 1, h/H 2, i/I/l/L 4, q/Q 8), the table's keys are exactly the widths sent to
     the primitive path, the code is lower-cased iff the field is signed, and the format
     prefix is '>' / '<' chosen by is_bigendian (never native alignment);
 (b) endianness fold: over {'big','little','network','local'} x sys.byteorder in
     {big, little} the expression assigned to is_bigendian folds to True, False, True,
     byteorder == 'big'; an omitted endianness is replaced by
     bisturi_conf.get('endianness', 'big') first;
 (c) arbitrary width: int.from_bytes / int.to_bytes receive the same width
     (self.byte_count), the same byteorder expression and signed=self.is_signed;
 (d) no wrapping: the value read from the packet flows unmodified into a strict encoder
     (struct.Struct.pack raises struct.error, int.to_bytes raises OverflowError) and the
     encoder's result is appended unmodified; the decoder's result is stored unmodified;
 (e) the constructor stores width / signedness / endianness unchanged.
The arithmetic of struct / int.from_bytes themselves is a trusted table.

Round 4: (R9-byte-order-single-source) the byte-order spelling is read only by Int.__init__ /
_compile; (R1-generated-int-codec) generated code decodes / encodes integers through struct only.

Round 5: (g) the pack drivers convert every encode failure (no narrower handler before the
catch-all); (h) a field handed out by a selector is compiled alike on both sides; (i) the cookie
covers the generated text (byte-order prefix).

Round 6: every spelling of the byte order x both hosts gives a standard-size struct object; the
PacketError constructor does not %-format a string that contains the original message; stale
constructor-derived state.
Round 7: (inherits) struct runs regrouped through a mapping or joined member by member (C03-d).
Round 8: includes the Optional pair rule of C08 (an optional integer 0 is encoded).
"""
import ast

from .. import Undecided
from ..expr import canon, lin, call_name, unparse, negate, conj, kwarg
from ..model import stmt_text
from ..fold import fold, Unknown, select_paths, guard_truth

EXPLANATION = __doc__
LEVEL_RULE = 'one obligation per table entry, per fold case (4 spellings x 2 byte orders + default), per codec parameter and per value flow'
ASSUMPTIONS = [
    "struct standard sizes with '<' '>' '!' '=': b/B 1, h/H 2, i/I/l/L 4, q/Q 8; lower case = signed",
    'struct.Struct.pack raises struct.error for out-of-range or non-integer values; int.to_bytes raises OverflowError',
    'int.from_bytes(b, byteorder, signed=) is the exact unsigned / two\'s-complement value of b',
]

STD = {'b': 1, 'B': 1, 'h': 2, 'H': 2, 'i': 4, 'I': 4, 'l': 4, 'L': 4, 'q': 8, 'Q': 8}


def gtexts(p):
    out = set()
    for g, pol in p.guards:
        t = g if pol else negate(g)
        for c in conj(t):
            out.add(canon(c))
    return out


def check_compile(ctx, ci, comp):
    """Int._compile over its whole configuration space.  For every spelling of the byte order
    (given or taken from the class options), host byte order, width and signedness, the path
    summary whose guards fold to true is selected and the values it stores are folded:
    is_bigendian, the strategy pair installed, and the format handed to struct.Struct."""
    repo = ctx.repo
    w = repo.walker(max_paths=ctx.max_paths, inline_depth=ctx.depth, keep={'_compile_impl'})
    paths = [p for p in w.paths(comp.node, cls=ci) if not p.raises()]
    ctx.unit('paths', len(paths))
    consts = {}
    # constants of the module (tables computed once, at import): names bound once at top level
    tree = repo.modules[ci.module]['tree']
    stores = {}
    for n_ in ast.walk(tree):
        if isinstance(n_, ast.Name) and isinstance(n_.ctx, (ast.Store, ast.Del)):
            stores[n_.id] = stores.get(n_.id, 0) + 1
    for st_ in tree.body:
        if isinstance(st_, ast.Assign) and len(st_.targets) == 1 and isinstance(st_.targets[0], ast.Name) and stores.get(st_.targets[0].id) == 1:
            consts[st_.targets[0].id] = st_.value
    for c in reversed(repo.mro(ci)):
        for k, v in c.attrs.items():
            consts['self.%s' % k] = v
            consts['%s.%s' % (c.name, k)] = v
    # which installed unpack strategies decode through struct, which through int.from_bytes
    kind_of = {}
    for s_ in repo.strategies(ci):
        if s_['unpack'] is None:
            continue
        calls = [call_name(n) or '' for n in ast.walk(s_['unpack'].node) if isinstance(n, ast.Call)]
        kind_of[s_['unpack'].node.name] = 'arbitrary' if 'int.from_bytes' in calls else 'struct'

    def finals(p):
        out = {}
        for e in p.effects:
            if e.kind == 'store_attr' and canon(e.obj) == 'self':
                out[e.name] = e.value
        return out

    WIDTHS = (1, 2, 3, 4, 8, 9)

    def decide(rule, label, env, want, get, clause, all_widths=False):
        """the value ``get`` folds to under ``env`` (and, with all_widths, under every width and
        signedness as well: the answer must not depend on them)"""
        variants = [env]
        if all_widths:
            variants = [dict(env, **{'self.byte_count': n, 'self.is_signed': sg}) for n in WIDTHS for sg in (False, True)]
        got = set()
        open_guard = None
        for env_ in variants:
            sel = select_paths(paths, env_, consts)
            if len(sel) > 1:
                from ..fold import guard_truth
                for p in sel:
                    for g, pol in p.guards:
                        if guard_truth(g, pol, env_, consts) is None:
                            open_guard = canon(g)
            if not sel:
                ctx.violation(rule, comp, label, 'no path of Int._compile handles this configuration (width %s)' % env_['self.byte_count'], comp.node.lineno, clause=clause)
                return
            for p in sel:
                try:
                    g_ = get(finals(p), env_)
                except Unknown as u:
                    ctx.undecided(rule, comp, label, 'cannot fold (%s)' % u, comp.node.lineno, clause=clause)
                    return
                if g_ != want and all_widths:
                    label = '%s [Int(%d, signed=%s)]' % (label, env_['self.byte_count'], env_['self.is_signed'])
                got.add(g_)
        if got == {want}:
            ctx.holds(rule, comp, '%s -> %s' % (label, want if not isinstance(want, tuple) else ' / '.join(map(str, want))), 'as documented', comp.node.lineno, clause=clause)
        elif len(got) > 1 and open_guard is not None:
            ctx.undecided(rule, comp, label, 'the configuration does not decide which path of Int._compile is taken (%s does not fold)' % open_guard[:80], comp.node.lineno, clause=clause)
        else:
            ctx.violation(rule, comp, '%s -> %s' % (label, sorted(map(str, got))), 'expected %s' % (want,), comp.node.lineno, clause=clause)

    base = {'self.byte_count': 4, 'self.is_signed': False, 'bisturi_conf': {}}

    def big(fin, env):
        if 'is_bigendian' not in fin:
            raise Unknown('is_bigendian is never stored on this path')
        v = fold(fin['is_bigendian'], env, consts)
        return v if v is None else bool(v)

    # ---------------------------------------------------------------- (b) endianness
    rule = 'R9-endianness-fold'
    want = {'big': (True, True), 'network': (True, True), 'little': (False, False), 'local': (True, False)}
    for spelling, (w_big, w_little) in sorted(want.items()):
        for order, wanted in (('big', w_big), ('little', w_little)):
            decide(rule, 'is_bigendian for endianness=%r on a %s-endian host' % (spelling, order),
                   dict(base, **{'self.endianness': spelling, 'sys.byteorder': order}), wanted, big, 'b', all_widths=True)
            # the same spelling given as the class-level option, the field giving none
            decide(rule, 'is_bigendian for endianness omitted, class option %r, %s-endian host' % (spelling, order),
                   dict(base, **{'self.endianness': None, 'sys.byteorder': order, 'bisturi_conf': {'endianness': spelling}}), wanted, big, 'b', all_widths=True)
    for order in ('big', 'little'):
        decide(rule, 'is_bigendian for endianness omitted and no class option, %s-endian host' % order,
               dict(base, **{'self.endianness': None, 'sys.byteorder': order}), True, big, 'b', all_widths=True)
    # ---------------------------------------------------------------- (a) strategy routing and struct codes
    rule = 'R9-struct-codes'

    def strategy(fin, env):
        v = fin.get('unpack')
        if v is None or not isinstance(v, ast.Attribute):
            raise Unknown('no unpack strategy installed on this path')
        # the installed function and the method values parked next to it on this path (a codec
        # chosen at compile time and called by a shared framing function)
        calls = set()
        for x in fin.values():
            if isinstance(x, ast.Attribute) and isinstance(x.value, ast.Name) and x.value.id == 'self':
                m_ = repo.method(ci, x.attr)
                if m_ is not None:
                    calls |= {call_name(n) or '' for n in ast.walk(m_.node) if isinstance(n, ast.Call)}
        if not calls:
            return kind_of.get(v.attr, 'unknown strategy %s' % v.attr)
        return 'arbitrary' if 'int.from_bytes' in calls else 'struct'

    def fmt(fin, env):
        structs = [v for v in fin.values() if isinstance(v, ast.Call) and call_name(v) in ('struct.Struct', 'Struct')]
        if len(structs) != 1 or not structs[0].args:
            raise Unknown('%d struct.Struct objects stored on this path' % len(structs))
        f = fold(structs[0].args[0], env, consts)
        if not isinstance(f, str) or len(f) != 2:
            return 'format %r' % (f,)
        prefix, code = f[0], f[1]
        if prefix == '=':           # standard sizes, the byte order of the host
            prefix = '>' if env.get('sys.byteorder') == 'big' else '<'
        return ('standard size, %s' % ('big endian' if prefix in '>!' else 'little endian' if prefix == '<' else 'NATIVE alignment/size (%r)' % prefix),
                '%d bytes' % STD.get(code, -1), 'signed' if code.islower() else 'unsigned')

    for n in (1, 2, 3, 4, 5, 6, 7, 8, 9, 16):
        env = dict(base, **{'self.endianness': 'big', 'sys.byteorder': 'little', 'self.byte_count': n})
        decide(rule, 'Int(%d) is compiled to the %s strategy' % (n, 'struct' if n in (1, 2, 4, 8) else 'arbitrary-width'), env,
               'struct' if n in (1, 2, 4, 8) else 'arbitrary', strategy, 'a')
    for n in (1, 2, 4, 8):
        for signed in (False, True):
            for spelling in ('big', 'little'):
                env = dict(base, **{'self.endianness': spelling, 'sys.byteorder': 'little' if spelling == 'big' else 'big', 'self.byte_count': n, 'self.is_signed': signed})
                decide(rule, 'struct format of Int(%d, signed=%s, %s endian)' % (n, signed, spelling), env,
                       ('standard size, %s endian' % spelling, '%d bytes' % n, 'signed' if signed else 'unsigned'), fmt, 'a')
    # every spelling of the byte order, on both kinds of host: the struct object has the byte order
    # is_bigendian says and standard (packed) sizes -- '@' would bring native alignment and sizes
    for spelling, (w_big, w_little) in sorted(want.items()):
        for order, wanted in (('big', w_big), ('little', w_little)):
            for n in (2, 8):
                env = dict(base, **{'self.endianness': spelling, 'sys.byteorder': order, 'self.byte_count': n, 'self.is_signed': False})
                decide(rule, 'struct format of Int(%d, endianness=%r) on a %s-endian host' % (n, spelling, order), env,
                       ('standard size, %s endian' % ('big' if wanted else 'little'), '%d bytes' % n, 'unsigned'), fmt, 'a')


def check_generic_range_is_codec_range(ctx, ci, comp, rule='R9-generic-range'):
    """Round 9.  for the widths the code generator packs with one struct call (1, 2, 4, 8 bytes),
    the pack strategy of the field loop accepts every value the struct code accepts: a test of its
    own in front of the codec (``abs(value) > self.max_magnitude``) is folded, for every width
    and signedness, at the boundary values of the code's range -- a value of the range for which a
    raising path is selected is packed by the generated code and rejected by the field loop"""
    repo = ctx.repo
    w = repo.walker(max_paths=ctx.max_paths, inline_depth=ctx.depth, keep={'_compile_impl'})
    paths = [p for p in w.paths(comp.node, cls=ci) if not p.raises()]
    GETV = 'getattr(pkt, self.field_name)'
    n_cfg = 0
    reported = set()
    for n in (1, 2, 4, 8):
        for signed in (False, True):
            env = {'self.endianness': 'big', 'sys.byteorder': 'little', 'self.byte_count': n, 'self.is_signed': signed, 'bisturi_conf': {}}
            sel = select_paths(paths, env)
            for p in sel:
                fin = {}
                for e in p.effects:
                    if e.kind == 'store_attr' and canon(e.obj) == 'self':
                        fin[e.name] = e.value
                pk = fin.get('pack')
                if not (isinstance(pk, ast.Attribute) and canon(pk.value) == 'self'):
                    continue
                sfi = repo.method(ci, pk.attr)
                if sfi is None:
                    continue
                spaths = repo.walker(max_paths=ctx.max_paths).paths(sfi.node, cls=ci)
                if not any(sp.raises() for sp in spaths):
                    n_cfg += 1
                    continue
                env2 = dict(env)
                for k_, v_ in fin.items():
                    try:
                        env2['self.%s' % k_] = fold(v_, env2)
                    except Unknown:
                        pass
                lo, hi = (-(1 << (8 * n - 1)), (1 << (8 * n - 1)) - 1) if signed else (0, (1 << (8 * n)) - 1)
                n_cfg += 1
                verdict = None
                for v in sorted(x for x in {lo, lo + 1, -1, 0, 1, hi - 1, hi} if lo <= x <= hi):
                    env3 = dict(env2, **{GETV: v})
                    cand = select_paths(spaths, env3)
                    certain = [sp for sp in cand if all(guard_truth(g, pol, env3) is True for g, pol in sp.guards)]
                    st = 'Int(%d, signed=%s).%s with value %d' % (n, signed, pk.attr, v)
                    if len(certain) == 1 and len(cand) == 1:
                        if certain[0].raises() and not any(t.startswith('caught(') for t in certain[0].guard_texts()):
                            key = (pk.attr, n, signed)
                            if key not in reported:
                                reported.add(key)
                                ctx.violation(rule, sfi, st, 'the field loop rejects %d [%s], a value the struct code of this field packs: the generated code (one struct call for the run) writes its bytes, the field-by-field interpretation raises a PacketError' % (
                                    v, '; '.join(sorted(certain[0].guard_texts()))[:120]), sfi.node.lineno, clause='a', witness=True)
                            verdict = False
                    elif any(sp.raises() for sp in cand):
                        if verdict is None:
                            verdict = 'open'
                if verdict is None:
                    ctx.holds(rule, sfi, 'Int(%d, signed=%s).%s: its own range test folds to "accept" on the whole range of the struct code' % (n, signed, pk.attr), 'boundary values %d .. %d' % (lo, hi), sfi.node.lineno, clause='a')
                elif verdict == 'open':
                    ctx.undecided(rule, sfi, 'Int(%d, signed=%s).%s' % (n, signed, pk.attr), 'a test in front of the codec does not fold for a boundary value of the range', sfi.node.lineno, clause='a')
    if n_cfg:
        ctx.holds(rule, comp, 'primitive-width pack strategies examined for %d configurations' % n_cfg, 'no value of the struct range is rejected before the codec', comp.node.lineno, clause='a')
    else:
        ctx.undecided(rule, comp, 'Int._compile', 'cannot see which pack strategy a primitive width installs', comp.node.lineno, clause='a')


def _replace_conf_get(e, value):
    import copy

    class T(ast.NodeTransformer):
        def visit_Call(self, n):
            self.generic_visit(n)
            if canon(n.func) == 'bisturi_conf.get':
                return ast.Constant(value=value)
            return n
    return T().visit(copy.deepcopy(e))


def check_codecs(ctx, ci):
    repo = ctx.repo
    w = repo.walker(inline_depth=1, max_paths=ctx.max_paths)
    strat = repo.strategies(ci)
    BO = "('big' if self.is_bigendian else 'little')"
    GETV = canon(ast.parse('getattr(pkt, self.field_name)', mode='eval').body)
    KEEP = ('is_bigendian', 'byte_count', 'is_signed', 'field_name', 'endianness', 'default', 'base')
    is_struct = lambda x: isinstance(x, ast.Call) and call_name(x) in ('struct.Struct', 'Struct')
    for s in strat:
        up, pk = s['unpack'], s['pack']
        ctx.unit('strategy_pairs')
        # attributes _compile computes for this strategy (the struct object, a cached byte order,
        # ...) are read through their definitions
        w.const_heap = repo.strategy_consts(s, keep=KEEP)
        # _compile may have cached the byte order: there is_bigendian appears through its own definition
        bos = {BO}
        if s.get('defs', {}).get('is_bigendian') is not None:
            bos.add(canon(ast.IfExp(test=s['defs']['is_bigendian'], body=ast.Constant(value='big'), orelse=ast.Constant(value='little'))))
        # ---- unpack: stored value is the decoder's result
        for p in w.paths(up.node, cls=ci):
            if p.raises() or any(t.startswith("caught(") for t in p.guard_texts()):
                continue
            st_ = [e for e in p.effects if e.kind == 'setattr' and canon(e.obj) == 'pkt' and canon(e.name) == 'self.field_name']
            if not st_:
                ctx.violation('R1-int-codec', up, up.qual, 'a non-raising path stores no value', up.node.lineno, clause='d')
                continue
            v = st_[-1].value
            st = '%s stores %s' % (up.qual, canon(v)[:150])
            if isinstance(v, ast.Subscript) and isinstance(v.slice, ast.Constant) and v.slice.value == 0 and isinstance(v.value, ast.Call) \
                    and isinstance(v.value.func, ast.Attribute) and v.value.func.attr == 'unpack' and is_struct(v.value.func.value):
                arg = v.value.args[0] if v.value.args else None
                if isinstance(arg, ast.Subscript) and isinstance(arg.slice, ast.Slice) and lin(ast.BinOp(left=arg.slice.upper, op=ast.Sub(), right=arg.slice.lower)) == {'self.byte_count': 1}:
                    ctx.holds('R1-int-codec', up, st, 'struct decode of exactly byte_count bytes, result stored unmodified', st_[-1].lineno, clause='d')
                else:
                    ctx.violation('R1-int-codec', up, st, 'the decoded slice is not byte_count bytes at the cursor', st_[-1].lineno, clause='d')
            elif isinstance(v, ast.Call) and call_name(v) == 'int.from_bytes':
                bo = kwarg(v, 'byteorder', 1)
                sg = kwarg(v, 'signed')
                arg = v.args[0] if v.args else None
                ok = True
                if bo is None or canon(bo) not in bos:
                    ok = ctx.violation('R1-int-codec', up, st, "byteorder must be 'big' if self.is_bigendian else 'little' (got %s)" % (canon(bo) if bo is not None else 'default'), st_[-1].lineno, clause='c')
                if sg is None or canon(sg) != 'self.is_signed':
                    ok = ctx.violation('R1-int-codec', up, st, 'signed must be self.is_signed (got %s): negative values decode as large positives' % (canon(sg) if sg is not None else 'default False'), st_[-1].lineno, clause='c')
                if not (isinstance(arg, ast.Subscript) and isinstance(arg.slice, ast.Slice) and arg.slice.upper is not None and arg.slice.lower is not None
                        and lin(ast.BinOp(left=arg.slice.upper, op=ast.Sub(), right=arg.slice.lower)) == {'self.byte_count': 1} and arg.slice.step is None):
                    ok = ctx.violation('R1-int-codec', up, st, 'the decoded slice is not byte_count bytes at the cursor', st_[-1].lineno, clause='c')
                if ok:
                    ctx.holds('R1-int-codec', up, st, 'width byte_count, byteorder from is_bigendian, signed=is_signed, stored unmodified', st_[-1].lineno, clause='c')
            else:
                ctx.violation('R1-int-codec', up, st, 'the stored value is not the unmodified result of the struct / from_bytes decoder', st_[-1].lineno, clause='d')
            r = p.ret()
            if r is None or lin(r) != {'offset': 1, 'self.byte_count': 1}:
                ctx.violation('R1-int-codec', up, '%s returns %s' % (up.qual, canon(r) if r is not None else None), 'the cursor must advance by byte_count', up.node.lineno, clause='c')
        # ---- pack: value flows unmodified into a strict encoder, result appended unmodified
        for p in w.paths(pk.node, cls=ci):
            if p.raises() or any(t.startswith("caught(") for t in p.guard_texts()):
                continue
            apps = p.calls(lambda e: isinstance(e.call.func, ast.Attribute) and canon(e.call.func.value) == 'fragments' and e.call.func.attr in ('append', 'extend', 'insert'))
            if len(apps) != 1 or apps[0].call.func.attr != 'append':
                ctx.violation('R1-int-codec', pk, pk.qual, 'pack does not append exactly one chunk', pk.node.lineno, clause='d')
                continue
            v = apps[0].call.args[0]
            st = '%s appends %s' % (pk.qual, canon(v)[:150])
            if isinstance(v, ast.Call) and isinstance(v.func, ast.Attribute) and v.func.attr == 'pack' and is_struct(v.func.value):
                if len(v.args) == 1 and canon(v.args[0]) == GETV:
                    ctx.holds('R1-int-codec', pk, st, 'the packet value flows unmodified into struct.pack (raises when out of range)', apps[0].lineno, clause='d')
                else:
                    ctx.violation('R1-int-codec', pk, st, 'the value is modified before packing (%s): out-of-range values wrap or truncate instead of raising' % canon(v.args[0] if v.args else v), apps[0].lineno, clause='d')
            elif isinstance(v, ast.Call) and isinstance(v.func, ast.Attribute) and v.func.attr == 'to_bytes':
                ok = True
                if canon(v.func.value) != GETV:
                    ok = ctx.violation('R1-int-codec', pk, st, 'the value is modified before encoding (%s): out-of-range values wrap instead of raising' % canon(v.func.value), apps[0].lineno, clause='d')
                width = kwarg(v, 'length', 0)
                bo = kwarg(v, 'byteorder', 1)
                sg = kwarg(v, 'signed')
                if width is None or canon(width) != 'self.byte_count':
                    ok = ctx.violation('R1-int-codec', pk, st, 'width must be self.byte_count', apps[0].lineno, clause='c')
                if bo is None or canon(bo) not in bos:
                    ok = ctx.violation('R1-int-codec', pk, st, "byteorder must be 'big' if self.is_bigendian else 'little' (got %s)" % (canon(bo) if bo is not None else 'default'), apps[0].lineno, clause='c')
                if sg is None or canon(sg) != 'self.is_signed':
                    ok = ctx.violation('R1-int-codec', pk, st, 'signed must be self.is_signed (got %s)' % (canon(sg) if sg is not None else 'default False'), apps[0].lineno, clause='c')
                if ok:
                    ctx.holds('R1-int-codec', pk, st, 'same width / byteorder / signed expressions as the decoder; strict encoder', apps[0].lineno, clause='c')
            else:
                ctx.violation('R1-int-codec', pk, st, 'the chunk appended is not the unmodified result of struct.pack / int.to_bytes', apps[0].lineno, clause='d')
            if p.ret() is None or canon(p.ret()) != 'fragments':
                pass
    w.const_heap = {}


def check_ctor(ctx, ci):
    init = ci.methods.get('__init__')
    if init is None:
        raise Undecided('anchor Int.__init__ not found')
    rule = 'R9-int-ctor'
    want = {'byte_count': 'byte_count', 'endianness': 'endianness', 'is_signed': 'signed', 'default': 'default'}
    for attr, param in want.items():
        ok = False
        for n in ast.walk(init.node):
            if isinstance(n, ast.Assign) and isinstance(n.targets[0], ast.Attribute) and n.targets[0].attr == attr and canon(n.targets[0].value) == 'self':
                ok = isinstance(n.value, ast.Name) and n.value.id == param
        if ok:
            ctx.holds(rule, init, 'self.%s = %s' % (attr, param), 'declared option stored unchanged', init.node.lineno, clause='e')
        else:
            ctx.violation(rule, init, 'self.%s' % attr, 'the constructor does not store %s unchanged' % param, init.node.lineno, clause='e')
    a = init.node.args
    defaults = dict(zip([x.arg for x in a.args][len(a.args) - len(a.defaults):], a.defaults))
    sd = defaults.get('signed')
    if isinstance(sd, ast.Constant) and sd.value is False:
        ctx.holds(rule, init, 'signed defaults to False', 'unsigned unless declared', init.node.lineno, clause='e')
    else:
        ctx.violation(rule, init, 'signed default %s' % (canon(sd) if sd is not None else None), 'integers are unsigned unless declared signed', init.node.lineno, clause='e')
    ed = defaults.get('endianness')
    if isinstance(ed, ast.Constant) and ed.value is None:
        ctx.holds(rule, init, 'endianness defaults to None', 'class-level default applies', init.node.lineno, clause='e')
    else:
        ctx.violation(rule, init, 'endianness default %s' % (canon(ed) if ed is not None else None), 'an omitted endianness must defer to the class-level default', init.node.lineno, clause='e')


def check_single_source(ctx):
    """the spelling of the byte order ('big', 'little', 'network', 'local', None = class default)
    is interpreted in one place, Int._compile, into is_bigendian; code elsewhere that looks at the
    spelling re-derives the byte order and misses a spelling"""
    repo = ctx.repo
    rule = 'R9-byte-order-single-source'
    ci = repo.cls('Int')
    own = {fi.id for n, fi in ci.methods.items() if n in ('__init__', '_compile')}
    reads = 0
    bad = 0
    for fi in repo.functions.values():
        if fi.qual.split('.')[-1] in repo.absorbed:
            continue
        for n in ast.walk(fi.node):
            if isinstance(n, ast.Attribute) and n.attr == 'endianness' and isinstance(n.ctx, ast.Load):
                reads += 1
                if fi.id in own or (fi.cls is ci and hasattr(n, '_inl')):
                    continue
                owner = fi
                bad += 1
                ctx.violation(rule, owner, stmt_text(n)[:80], 'the byte-order spelling of an integer is read outside Int._compile: only is_bigendian, which _compile resolves from it (class default, "network", "local" on this machine), says how the integer is encoded', n.lineno, clause='a', witness=True)
    if not bad:
        ctx.holds(rule, ci.methods['_compile'], 'the endianness attribute is read only by Int.__init__ / Int._compile (%d reads)' % reads, 'one interpretation of the spelling', ci.methods['_compile'].node.lineno, clause='a')
    ctx.floor('reads of the endianness spelling', reads, 2)


def check_generated_codecs(ctx):
    """generated code moves integers between bytes and values through struct with the fields' own
    struct codes (or through the fields' own pack / unpack): no hand-made decoding of input bytes,
    no hand-made encoding into the buffer"""
    repo = ctx.repo
    rule = 'R1-generated-int-codec'
    n_read = n_write = 0
    for t in repo.templates():
        if t.tree is None:
            continue
        parents = {}
        for p_ in ast.walk(t.tree):
            for c in ast.iter_child_nodes(p_):
                parents[id(c)] = p_
        for n in ast.walk(t.tree):
            if isinstance(n, ast.Subscript) and isinstance(n.value, ast.Name) and n.value.id == 'raw':
                n_read += 1
                par = parents.get(id(n))
                ok = isinstance(par, ast.Call) and isinstance(par.func, ast.Name) and par.func.id in ('StructUnpack',)
                ok = ok or (isinstance(par, ast.Call) and (call_name(par) or '') == 'struct.unpack')
                if ok:
                    ctx.holds(rule, t.func, stmt_text(par)[:100], 'input bytes decoded by struct with the format built from the fields\' struct codes', t.lineno, clause='b')
                else:
                    ctx.violation(rule, t.func, stmt_text(par if par is not None else n)[:100], 'generated code takes a value out of the input bytes without struct: width, byte order and signedness of the field are not applied', t.lineno, clause='b', witness=True)
            if isinstance(n, ast.Call) and isinstance(n.func, ast.Attribute) and n.func.attr in ('append', 'extend', 'insert') and canon(n.func.value) == 'fragments':
                n_write += 1
                a = n.args[-1] if n.args else None
                ok = isinstance(a, ast.Call) and isinstance(a.func, ast.Name) and a.func.id == 'StructPack' or (isinstance(a, ast.Call) and (call_name(a) or '') == 'struct.pack')
                if ok:
                    ctx.holds(rule, t.func, stmt_text(n)[:100], 'values encoded by struct with the format built from the fields\' struct codes', t.lineno, clause='b')
                else:
                    ctx.violation(rule, t.func, stmt_text(n)[:100], 'generated code writes bytes it encoded without struct: width, byte order, signedness and range check of the field are not applied', t.lineno, clause='b', witness=True)
    ctx.unit('generated_reads', n_read)
    ctx.unit('generated_writes', n_write)
    ctx.floor('generated decode / encode sites', n_read + n_write, 2)


def check_surroundings(ctx):
    """Round 5.  What stands between the codec and the caller:
    (g) an encode failure leaves pack() as PacketError -- the pack drivers convert every failure of
        a field's pack (C12 handlers; a narrower handler in front of the catch-all lets failures
        of that class escape);
    (h) an Int handed out by a run-time selector (Ref with a callable) is configured the same way
        for decoding and for encoding (C08-ref sibling rule: same byte-order defaults);
    (i) the byte order of a struct block only shows in the generated text ('<' / '>' prefix): the
        cookie that lets a cached module be reused covers that text (C15 H)"""
    from .. import drivers as D
    for d in D.get_drivers(ctx.repo):
        if d.kind == 'pack':
            D.check_handlers(ctx, 'R9-encode-failure-surfaces', d)
    # ... and building the PacketError does not fail on the message of the original error
    from .c12 import check_packet_error_class
    check_packet_error_class(ctx)
    from .c08 import check_ref
    check_ref(ctx, ctx.repo.cls('Ref'))
    from .c15 import check_hash_covers_generated_code
    check_hash_covers_generated_code(ctx, 'R9-generated-code-is-current')



def _include(ctx, what, fn, *a, **k):
    """run a rule of another property as part of this one; an analysis it cannot complete is
    reported as no verdict of that rule, not of the whole check"""
    try:
        fn(ctx, *a, **k)
    except Undecided as e:
        ctx.undecided(what, ('bisturi', '<included rule>'), what, str(e), 0)

def check(ctx):
    repo = ctx.repo
    # Round 8: an integer declared optional is encoded whenever it is present: 0 is a value (C08 pair rule)
    from .c08 import check_optional
    _include(ctx, 'C08-optional', check_optional, repo.cls('Optional'))
    ci = repo.cls('Int')
    comp = ci.methods.get('_compile')
    if comp is None:
        raise Undecided('anchor Int._compile not found')
    ctx.unit('functions', 6)
    check_compile(ctx, ci, comp)
    check_generic_range_is_codec_range(ctx, ci, comp)
    check_codecs(ctx, ci)
    check_ctor(ctx, ci)
    from .c03 import check_struct_block
    try:
        check_struct_block(ctx)
    except Undecided as e:
        # the other clauses are still decided; this one has no verdict
        ctx.undecided('R2-struct-block', (ci.file, 'CodeGenerator'), 'struct block generator', str(e), 0, clause='d')
    check_single_source(ctx)
    check_generated_codecs(ctx)
    check_surroundings(ctx)
    from ..model import check_stale_derived
    check_stale_derived(ctx, 'R9-ctor-derived-state', 'Int', clause='c')
    ctx.floor('strategy pairs of Int', ctx.units.get('strategy_pairs', 0), 2)
    ctx.floor('endianness fold cases', sum(1 for o in ctx.obs if o.rule == 'R9-endianness-fold'), 9)
    from ..model import check_conf_plumbing
    check_conf_plumbing(ctx, 'R9-conf-plumbing', 'endianness')
    ctx.trust(*ASSUMPTIONS)
