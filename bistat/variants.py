"""Whole-package behaviour-preserving transformations; every check must stay silent.

  roundtrip : ast.unparse of every module (drops comments / layout / quoting)
  rename    : every function-local variable (not parameters, not names used by nested
              scopes, not globals) gets a new name
  both      : rename, then roundtrip
usage: benign_variants.py <kind> <outdir>
"""
import ast
import os
import shutil
import symtable
import sys

REPO = os.environ.get('BISTAT_REPO', '/repo')


def roundtrip(src):
    return ast.unparse(ast.parse(src)) + '\n'


class Renamer(ast.NodeTransformer):
    def __init__(self, src, fname):
        self.table = symtable.symtable(src, fname, 'exec')
        self.stack = []

    def _locals(self, node, tab):
        names = set()
        for s in tab.get_symbols():
            if s.is_local() and not s.is_parameter() and not s.is_global() and not s.is_free() and not s.is_imported():
                # skip names captured by nested scopes (cells) and nested function / class names
                if s.is_namespace():
                    continue
                names.add(s.get_name())
        # names referenced free in children stay
        for ch in tab.get_children():
            for s in ch.get_symbols():
                if s.is_free():
                    names.discard(s.get_name())
            for gch in ch.get_children():
                for s in gch.get_symbols():
                    if s.is_free():
                        names.discard(s.get_name())
        return names

    def _find(self, tab, node):
        for ch in tab.get_children():
            if ch.get_name() == getattr(node, 'name', '<lambda>') and ch.get_lineno() == node.lineno:
                return ch
        return None

    def visit_FunctionDef(self, node):
        parent = self.stack[-1][0] if self.stack else self.table
        tab = self._find(parent, node)
        if tab is None:
            return node
        names = self._locals(node, tab) if tab.get_type() == 'function' else set()
        names -= {'_'}
        self.stack.append((tab, names))
        node.body = [self.visit(s) for s in node.body]
        self.stack.pop()
        return node

    def visit_ClassDef(self, node):
        parent = self.stack[-1][0] if self.stack else self.table
        tab = self._find(parent, node)
        if tab is None:
            return node
        self.stack.append((tab, set()))
        node.body = [self.visit(s) for s in node.body]
        self.stack.pop()
        return node

    def visit_Lambda(self, node):
        return node          # leave lambdas (their bodies only see params / outer names kept above)

    def visit_ListComp(self, node): return node
    def visit_SetComp(self, node): return node
    def visit_DictComp(self, node): return node
    def visit_GeneratorExp(self, node): return node

    def visit_Name(self, node):
        if self.stack and node.id in self.stack[-1][1]:
            node.id = 'lv_' + node.id
        return node

    def visit_ExceptHandler(self, node):
        if self.stack and node.name and node.name in self.stack[-1][1]:
            node.name = 'lv_' + node.name
        self.generic_visit(node)
        return node


def rename(src, fname):
    tree = ast.parse(src)
    # a local used inside a comprehension / lambda of the same function must keep its name
    tree2 = Renamer(src, fname).visit(tree)
    return ast.unparse(tree2) + '\n'


def uses_in_inner_scopes(func):
    names = set()
    for n in ast.walk(func):
        if isinstance(n, (ast.Lambda, ast.ListComp, ast.SetComp, ast.DictComp, ast.GeneratorExp)):
            for x in ast.walk(n):
                if isinstance(x, ast.Name):
                    names.add(x.id)
    return names


PRIVATE_PREFIXES = ('_unpack_', '_pack_', '_clone_from_', '_lets_find', '_defer_', '_search_buffer')


def _known_function_names():
    import json
    p = os.path.join(os.path.dirname(os.path.dirname(os.path.abspath(__file__))), 'known_findings.json')
    try:
        import re
        out = set()
        for f in json.load(open(p))['findings']:
            if f.get('status') == 'known':
                out.add(f['function'].split('.')[-1])
                out |= set(re.findall(r'[A-Za-z_][A-Za-z_0-9]*', f.get('statement', '')))
        return out
    except Exception:
        return set()


KEEP = _known_function_names()


def rename_private(src):
    """rename private helper methods / attributes (strategy implementations, clone helpers...)
    consistently across the package: definitions, attribute references, names and equal strings"""
    tree = ast.parse(src)
    for n in ast.walk(tree):
        if isinstance(n, ast.FunctionDef) and n.name.startswith(PRIVATE_PREFIXES) and n.name not in KEEP:
            n.name = n.name + '_rn'
        elif isinstance(n, ast.Attribute) and n.attr.startswith(PRIVATE_PREFIXES) and n.attr not in KEEP:
            n.attr = n.attr + '_rn'
        elif isinstance(n, ast.Name) and n.id.startswith(PRIVATE_PREFIXES):
            n.id = n.id + '_rn'
        elif isinstance(n, ast.Constant) and isinstance(n.value, str) and n.value.startswith(PRIVATE_PREFIXES) and n.value.isidentifier():
            n.value = n.value + '_rn'
    return ast.unparse(tree) + '\n'


def build(kind, out):
    shutil.rmtree(out, ignore_errors=True)
    shutil.copytree(os.path.join(REPO, 'bisturi'), os.path.join(out, 'bisturi'), ignore=shutil.ignore_patterns('__pycache__', '__pkts__'))
    for fn in sorted(os.listdir(os.path.join(out, 'bisturi'))):
        if not fn.endswith('.py'):
            continue
        p = os.path.join(out, 'bisturi', fn)
        src = open(p).read()
        if kind in ('rename', 'both', 'all'):
            # protect names used in inner scopes: the symtable pass handles free variables of
            # nested defs; comprehensions / lambdas are left untouched, so any local they read
            # must not be renamed -> post-filter by a second pass
            tree = ast.parse(src)
            keep = set()
            for f in ast.walk(tree):
                if isinstance(f, (ast.FunctionDef,)):
                    keep |= uses_in_inner_scopes(f)
            r = Renamer(src, fn)
            orig_locals = r._locals

            def filtered(node, tab, _o=orig_locals):
                return _o(node, tab) - keep
            r._locals = filtered
            src = ast.unparse(r.visit(tree)) + '\n'
        if kind in ('private', 'all'):
            src = rename_private(src)
        if kind in ('roundtrip', 'both', 'all'):
            src = roundtrip(src)
        compile(src, fn, 'exec')
        open(p, 'w').write(src)
    return out


def main():
    kind, out = sys.argv[1], sys.argv[2]
    build(kind, out)
    print('variant', kind, 'written to', out)


if __name__ == '__main__':
    main()
