#!/usr/bin/env python3
"""Evaluate a seeded change produced by an independent sub-agent.

usage: eval_seeded.py <PROP> <patch.diff> <demo.py> [--keep <name>] [--notes <notes.md>]

Confirms, in a scratch worktree of /repo outside /repo and /verif:
  1. the patch applies to the current /repo HEAD and the tree still compiles,
  2. the pinned test suite still passes with the patch,
  3. the demonstration exits 0 without the patch and non-zero with it,
then runs every check of /verif against the patched tree (./check <ID> --root <scratch>)
and reports which properties' checks fire.  With --keep the change is stored as
/verif/seeded/<name>/ (patch.diff, demo.py, meta.json).  The scratch worktree is removed.
"""
import json
import os
import shutil
import subprocess
import sys
import tempfile

VERIF = os.path.dirname(os.path.dirname(os.path.abspath(__file__)))
PY = '/venv/bin/python'
PROPS = ['C%02d' % i for i in range(1, 21)]


def sh(cmd, cwd=None, env=None, timeout=600):
    e = dict(os.environ)
    e['PYTHONDONTWRITEBYTECODE'] = '1'
    if env:
        e.update(env)
    p = subprocess.run(cmd, shell=True, cwd=cwd, env=e, stdout=subprocess.PIPE, stderr=subprocess.STDOUT, timeout=timeout)
    return p.returncode, p.stdout.decode('utf-8', 'replace')


def main():
    a = sys.argv[1:]
    prop, patch, demo = a[0], os.path.abspath(a[1]), os.path.abspath(a[2])
    keep = a[a.index('--keep') + 1] if '--keep' in a else None
    notes = a[a.index('--notes') + 1] if '--notes' in a else None
    wt = tempfile.mkdtemp(prefix='ev.', dir='/tmp')
    os.rmdir(wt)
    res = {'property': prop, 'patch': patch}
    try:
        rc, out = sh('git -C /repo worktree add -q --detach %s HEAD' % wt)
        if rc:
            print(out); return 2
        # demo without patch
        dd = tempfile.mkdtemp(prefix='evdemo.', dir='/tmp')
        shutil.copy(demo, os.path.join(dd, 'demo.py'))
        rc0, out0 = sh('%s demo.py' % PY, cwd=dd, env={'PYTHONPATH': wt})
        res['demo_without_patch'] = rc0
        rc, out = sh('git -C %s apply --whitespace=nowarn %s' % (wt, patch))
        res['applies'] = rc == 0
        if rc:
            print('PATCH DOES NOT APPLY:', out)
            print(json.dumps(res)); return 2
        rc, out = sh('%s -m compileall -q bisturi' % PY, cwd=wt, env={'PYTHONDONTWRITEBYTECODE': '0'})
        sh('find %s -name __pycache__ -prune -exec rm -rf {} +' % wt)
        res['compiles'] = rc == 0
        rc, out = sh('%s -m pytest -q -p no:cacheprovider tests' % PY, cwd=wt, env={'PYTHONPATH': wt})
        tail = [l for l in out.splitlines() if 'passed' in l or 'failed' in l or 'error' in l]
        res['tests'] = tail[-1] if tail else out[-200:]
        res['tests_pass'] = rc == 0 and '40 passed' in out
        shutil.rmtree(os.path.join(dd, '__pkts__'), ignore_errors=True)
        rc1, out1 = sh('%s demo.py' % PY, cwd=dd, env={'PYTHONPATH': wt})
        res['demo_with_patch'] = rc1
        res['demo_tail'] = out1.strip().splitlines()[-3:]
        shutil.rmtree(dd, ignore_errors=True)
        fired, undecided = [], []
        details = {}
        for p in PROPS:
            rc, out = sh('./check %s --root %s --no-evidence' % (p, wt), cwd=VERIF)
            if rc == 1:
                fired.append(p)
                details[p] = [l.strip() for l in out.splitlines() if 'VIOLATED' in l or 'reason:' in l][:6]
            elif rc == 2:
                undecided.append(p)
                details[p] = [l.strip() for l in out.splitlines() if 'ANALYSIS-ERROR' in l][:3]
        res['checks_fired'] = fired
        res['checks_undecided'] = undecided
        res['details'] = details
        res['caught_by_own_property'] = prop in fired
        valid = res['applies'] and res['compiles'] and res['tests_pass'] and rc0 == 0 and rc1 != 0
        res['valid_seed'] = valid
        print(json.dumps({k: v for k, v in res.items() if k != 'details'}, indent=1))
        for p, d in details.items():
            print(p, *d, sep='\n   ')
        if keep and valid:
            dst = os.path.join(VERIF, 'seeded', keep)
            os.makedirs(dst, exist_ok=True)
            shutil.copy(patch, os.path.join(dst, 'patch.diff'))
            shutil.copy(demo, os.path.join(dst, 'demo.py'))
            if notes and os.path.exists(notes):
                shutil.copy(notes, os.path.join(dst, 'notes.md'))
            meta = {
                'property': prop,
                'breaks': 'see notes.md' if notes else '',
                'confirmed': {
                    'applies_to_repo_head': subprocess.check_output(['git', '-C', '/repo', 'rev-parse', '--short', 'HEAD']).decode().strip(),
                    'pinned_tests_with_patch': res['tests'],
                    'demo_exit_without_patch': rc0,
                    'demo_exit_with_patch': rc1,
                },
                'ran': ['git apply patch.diff (scratch worktree)', 'pytest tests (40 passed)', 'demo.py with and without the patch', './check <all> --root <scratch>'],
                'checks_fired': fired,
                'checks_undecided': undecided,
                'caught_by_own_property': prop in fired,
                'violations_reported': details.get(prop, []),
            }
            mp = os.path.join(dst, 'meta.json')
            if os.path.exists(mp):
                old = json.load(open(mp))
                meta['first_run'] = old.get('first_run', {'caught_by_own_property': old.get('caught_by_own_property'), 'checks_fired': old.get('checks_fired')})
                meta['round'] = old.get('round', 1)
            else:
                meta['first_run'] = {'caught_by_own_property': prop in fired, 'checks_fired': fired, 'checks_undecided': undecided}
                meta['round'] = int(os.environ.get('SEED_ROUND', '2'))
            with open(mp, 'w') as f:
                json.dump(meta, f, indent=1)
        return 0
    finally:
        sh('git -C /repo worktree remove --force %s' % wt)
        shutil.rmtree(wt, ignore_errors=True)


if __name__ == '__main__':
    sys.exit(main())
