"""Thorough tier: the checker is tested both ways (DESIGN.md section 7).

Every corpus entry is a textual patch (file, old -> new) applied to a scratch
copy of the *current* /repo/bisturi (under a temporary directory outside /repo
and /verif, removed at exit).  Only the static checker runs on the variants; no
variant is executed.

* seeded  -- a realistic change that breaks the property while still compiling
             and passing the 40 pinned tests: the check must exit 1 and (when
             the entry names one) report the expected rule;
* benign  -- a behaviour-preserving refactor: the check must stay silent (exit 0).

A seeded variant that is not caught, or a benign one that is flagged, is a defect
of the checker: ANALYSIS-ERROR, exit 2 -- never a VIOLATION of the property.
Patches that no longer apply to an edited tree are skipped and reported.
"""
import io
import os
import shutil
import sys
import tempfile

from .corpus import CORPUS

REPO = os.environ.get('BISTAT_REPO', '/repo')


def apply_entry(entry, root):
    """returns None if applied, else the reason it was skipped"""
    edits = entry.get('edits') or [(entry['file'], entry['old'], entry['new'])]
    for file, old, new in edits:
        path = os.path.join(root, file)
        if not os.path.exists(path):
            return 'file %s missing' % file
        with open(path) as f:
            src = f.read()
        if src.count(old) != 1:
            return 'anchor text occurs %d times in %s' % (src.count(old), file)
        with open(path, 'w') as f:
            f.write(src.replace(old, new))
    return None


def run_entry(entry, seed=0):
    from .__main__ import run_property
    tmp = tempfile.mkdtemp(prefix='bistat.')
    try:
        shutil.copytree(os.path.join(REPO, 'bisturi'), os.path.join(tmp, 'bisturi'),
                        ignore=shutil.ignore_patterns('__pycache__', '__pkts__'))
        why = apply_entry(entry, tmp)
        if why:
            return 'skipped', why, ''
        # the variant must still compile
        for fn in os.listdir(os.path.join(tmp, 'bisturi')):
            if fn.endswith('.py'):
                with open(os.path.join(tmp, 'bisturi', fn)) as f:
                    try:
                        compile(f.read(), fn, 'exec')
                    except SyntaxError as e:
                        return 'broken', 'variant does not compile: %s' % e, ''
        buf = io.StringIO()
        code = run_property(entry['property'], 'quick', seed, root=tmp, write=False, out=buf)
        text = buf.getvalue()
        if entry['kind'] == 'seeded':
            if code != 1:
                return 'missed', 'exit %d, expected a VIOLATION' % code, text
            rule = entry.get('rule')
            if rule and ('rule=%s' % rule) not in text:
                return 'misattributed', 'violation reported, but not by rule %s' % rule, text
            return 'caught', '', text
        else:
            if code != 0:
                return 'flagged', 'exit %d on a behaviour-preserving variant' % code, text
            return 'silent', '', text
    finally:
        shutil.rmtree(tmp, ignore_errors=True)


def run_selftest(prop, seed=0, out=sys.stdout, verbose=False):
    entries = [e for e in CORPUS if e['property'] == prop]
    bad = 0
    counts = {}
    for e in entries:
        res, why, text = run_entry(e, seed)
        counts[res] = counts.get(res, 0) + 1
        good = res in ('caught', 'silent', 'skipped')
        if not good:
            bad += 1
            print('ANALYSIS-ERROR property=%s self-test %s [%s] %s: %s' % (prop, e['id'], e['kind'], res, why), file=out)
            if verbose:
                print(text, file=out)
        elif res == 'skipped':
            print('   self-test %s skipped: %s' % (e['id'], why), file=out)
        elif verbose:
            print('   self-test %-40s %s' % (e['id'], res), file=out)
    print('   self-test corpus for %s: %s' % (prop, ', '.join('%s=%d' % kv for kv in sorted(counts.items())) or 'empty'), file=out)
    # whole-package behaviour-preserving transformations: the check must stay silent
    from .variants import build
    from .__main__ import run_property
    for kind in ('both', 'private'):
        tmp = tempfile.mkdtemp(prefix='bistat.')
        try:
            build(kind, tmp)
            buf = io.StringIO()
            code = run_property(prop, 'quick', seed, root=tmp, write=False, out=buf)
            if code != 0:
                bad += 1
                print('ANALYSIS-ERROR property=%s self-test whole-package variant "%s" (behaviour-preserving) is not silent: exit %d' % (prop, kind, code), file=out)
                if verbose:
                    print(buf.getvalue(), file=out)
            else:
                print('   self-test whole-package variant %-8s silent' % kind, file=out)
        except Exception as e:
            bad += 1
            print('ANALYSIS-ERROR property=%s self-test whole-package variant "%s": %s' % (prop, kind, e), file=out)
        finally:
            shutil.rmtree(tmp, ignore_errors=True)
    # independently produced changes kept under /verif/seeded (must be caught by the check of
    # their own property) and /verif/benign (behaviour-preserving: every check must stay silent)
    pc = run_patch_corpus(prop, seed, out)
    bad += pc['bad']
    counts_patch = pc
    # record what the thorough tier covered in the evidence file
    try:
        import json
        from .report import EVIDENCE_DIR
        ep = os.path.join(EVIDENCE_DIR, '%s.json' % prop)
        if os.path.exists(ep):
            ev = json.load(open(ep))
            ev['coverage']['selftest'] = {'corpus_entries': len(entries), 'results': counts, 'whole_package_variants': ['rename+roundtrip', 'private helper renames'],
                                          'independent_changes': {k: v for k, v in counts_patch.items() if k != 'bad'},
                                          'defects_of_the_checker': bad,
                                          'rule': 'seeded variants must be caught, benign variants and whole-package behaviour-preserving transformations must stay silent; run on scratch copies, nothing is executed'}
            ev['coverage']['evaluations'] = ev['coverage'].get('evaluations', 0) + len(entries) + 2
            json.dump(ev, open(ep, 'w'), indent=1)
    except Exception as e:                                  # pragma: no cover
        print('   (could not record the self-test in the evidence file: %s)' % e, file=out)
    return 2 if bad else 0


def _patch_job(job):
    import subprocess
    from .__main__ import run_property
    kind, name, prop, seed = job
    d = os.path.join(os.path.dirname(os.path.dirname(os.path.abspath(__file__))), kind, name)
    tmp = tempfile.mkdtemp(prefix='bistat.')
    try:
        shutil.copytree(os.path.join(REPO, 'bisturi'), os.path.join(tmp, 'bisturi'), ignore=shutil.ignore_patterns('__pycache__', '__pkts__'))
        p = subprocess.run(['git', 'apply', '--whitespace=nowarn', '--include=bisturi/*', os.path.join(d, 'patch.diff')], cwd=tmp,
                           stdout=subprocess.PIPE, stderr=subprocess.STDOUT)
        if p.returncode:
            return kind, name, 'skipped', ''
        buf = io.StringIO()
        try:
            code = run_property(prop, 'quick', seed, root=tmp, write=False, out=buf)
        except Exception as e:
            code = 2
            buf.write('internal %r' % e)
        return kind, name, code, buf.getvalue()
    finally:
        shutil.rmtree(tmp, ignore_errors=True)


def run_patch_corpus(prop, seed=0, out=sys.stdout):
    """seeded/<name> of this property must make the check exit 1; every benign/<name> must leave
    it at 0 (an analysis that cannot follow the refactoring -- exit 2 -- is listed, not counted as
    a defect of the checker: it is a missing verdict, never a wrong one)"""
    import json
    import multiprocessing
    verif = os.path.dirname(os.path.dirname(os.path.abspath(__file__)))
    jobs = []
    for kind in ('seeded', 'benign'):
        base = os.path.join(verif, kind)
        if not os.path.isdir(base):
            continue
        for name in sorted(os.listdir(base)):
            mp = os.path.join(base, name, 'meta.json')
            if not os.path.exists(mp) or not os.path.exists(os.path.join(base, name, 'patch.diff')):
                continue
            meta = json.load(open(mp))
            if kind == 'seeded' and meta.get('property') != prop:
                continue
            if kind == 'seeded' and meta.get('caught_by_own_property') is False:
                # recorded gap (DESIGN.md section 10): reported by the checks of other properties only
                print('   independent seeded change %s: recorded gap of this check (caught by %s)' % (name, ', '.join(meta.get('checks_fired', [])) or 'no check'), file=out)
                continue
            jobs.append((kind, name, prop, seed))
    res = {'seeded_caught': 0, 'seeded_missed': 0, 'benign_silent': 0, 'benign_undecided': 0, 'benign_flagged': 0, 'skipped': 0, 'bad': 0}
    if not jobs:
        return res
    with multiprocessing.Pool(min(16, len(jobs))) as pool:
        results = pool.map(_patch_job, jobs, chunksize=1)
    for kind, name, code, text in results:
        if code == 'skipped':
            res['skipped'] += 1
            print('   independent change %s/%s skipped: the patch no longer applies' % (kind, name), file=out)
        elif kind == 'seeded':
            if code == 1:
                res['seeded_caught'] += 1
            else:
                res['seeded_missed'] += 1
                res['bad'] += 1
                print('ANALYSIS-ERROR property=%s independent seeded change %s is not caught (exit %s)' % (prop, name, code), file=out)
        else:
            if code == 0:
                res['benign_silent'] += 1
            elif code == 2:
                res['benign_undecided'] += 1
                print('   independent refactoring %s: no verdict (the analysis cannot follow it)' % name, file=out)
            else:
                res['benign_flagged'] += 1
                res['bad'] += 1
                print('ANALYSIS-ERROR property=%s independent behaviour-preserving refactoring %s is flagged (false alarm)' % (prop, name), file=out)
    print('   independent changes for %s: %s' % (prop, ', '.join('%s=%d' % kv for kv in sorted(res.items()) if kv[0] != 'bad')), file=out)
    return res


def main(argv):
    props = argv[1:] or sorted({e['property'] for e in CORPUS})
    if props == ['all']:
        props = sorted({e['property'] for e in CORPUS})
    worst = 0
    for p in props:
        worst = max(worst, run_selftest(p, verbose='-v' in argv or True))
    return worst


if __name__ == '__main__':
    sys.exit(main([a for a in sys.argv if a != '-v']))
