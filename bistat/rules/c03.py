"""C03 -- generated pack/unpack code is equivalent to field-by-field interpretation.

Rule family R2 (driver sibling agreement) on template ASTs: the string templates of
codegen.py are parsed with typed holes and compared with the generic loop of packet.py.

 (a) skeleton agreement (pack and unpack separately): entry assignment of
     k['innermost-pkt-pos'], hooks at the same place relative to the field calls, the
     try spans all field blocks, two handlers with the same roles and arguments, same
     return value; the normalised handler bodies of the two siblings are identical;
 (b) loop block == generic loop body: same tuple slots, same call signature, same
     cursor update;
 (c) partition / index coverage: every list of blocks is built from itertools.groupby
     runs of the whole field list with no filter; every run is consumed by exactly one
     generator on every branch; loop blocks index range(group[0][0], group[-1][0]+1)
     zipped with the same group; pack blocks are c[0], unpack blocks c[1] of the
     (pack, unpack) pairs every generator returns;
 (d) struct block == sequential primitive fields: format = prefix + the members'
     struct_code in group order, prefix '>' if is_bigendian else '<' (the IfExp of
     Int._compile), advance = struct.calcsize(fmt), targets/values pkt.<name> in the
     same order; the group reaching the struct-block generator is a singleton with its
     own is_bigendian or a groupby run keyed on is_bigendian with that key;
 (e) option plumbing: the four options are read from __bisturi__ under their own names
     with the documented defaults and reach the CodeGenerator parameter of the same
     name; generated functions are produced and installed only under their own flag;
 (f) annotate is comment-only: the comments holes stand alone on a line and are filled
     from sourcecode_by_field_name, whose values come from textwrap.indent(..., '# ').
Equality of values / bytes / failure sets over all inputs is not decided.

Round 4: driver / block template variants (holes filled with one of a few literal texts) are each
held to the rules; the partition rule reads what the spliced list collects.

Round 5: (b') sync hooks on the same side of the try in both drivers; (a') no statement hole
besides the field blocks and the sync calls, and none whose generator emits raise / return;
(d'') struct-code owners; the install step validates a reloaded module's cookie (C15-V).

Round 6: text glued to a block template before formatting; the generated sync calls are indexed
as get_sync_*_methods() returns them (C17-c).
Round 7: the generic reader of Data(n) is as strict as the generated StructUnpack (d''); members
filtered out of a run must have no-op pack / unpack; runs regrouped through a mapping or built member
by member under a test other than "same endianness"; the annotate option may be decided at use time.
Round 8: a single-pass generator flushes its pending run before any other block; constant
sub-templates are spliced into the driver templates; options kept in another form have no verdict.
Round 9: the name a field is listed under is the attribute it reads and writes (C17 b'); the
run-partition rule states its vocabulary and gives no verdict outside it.
"""
import ast

from .. import Undecided
from ..expr import canon, unparse, call_name, negate, conj
from ..model import stmt_text
from .. import drivers as D

EXPLANATION = __doc__
LEVEL_RULE = 'one obligation per (driver pair | template | groupby site | option | generator) clause'
ASSUMPTIONS = [
    'itertools.groupby yields consecutive runs in order and drops nothing; zip/range/enumerate as documented',
    'struct.calcsize(fmt) is the number of bytes struct.pack(fmt, ...) emits / struct.unpack(fmt, ...) requires',
    "textwrap.indent(text, '# ') prefixes every non-blank line",
]


def norm_handler(d, h):
    """normalised statements of a handler: rename packet variable and the field-name
    variable, raise == raise e, drop 'from None'"""
    out = []
    d = _Renamed(d, dict(d.rename, **{D.field_name_var(d): 'FIELDNAME'}))
    for s in h.body:
        if isinstance(s, ast.Raise):
            if s.exc is None or (isinstance(s.exc, ast.Name) and s.exc.id == h.name):
                out.append('raise <caught>')
            else:
                out.append('raise ' + canon(s.exc, dict(d.rename, **({h.name: 'EXC'} if h.name else {}))))
        elif isinstance(s, ast.Expr):
            out.append(canon(s.value, dict(d.rename, **({h.name: 'EXC'} if h.name else {}))))
        else:
            out.append(stmt_text(s))
    return out


class _Renamed:
    def __init__(self, d, rename):
        self.rename = rename


def check_skeletons(ctx):
    drivers = D.get_drivers(ctx.repo)
    layout = D.fields_tuple_layout(ctx.repo)
    by = {(d.origin, d.kind): d for d in drivers}
    for d in drivers:
        ctx.unit('drivers')
        D.check_try_span(ctx, 'R2-skeleton', d)
        D.check_handlers(ctx, 'R2-skeleton', d)
        D.check_innermost(ctx, 'R2-skeleton', d)
        D.check_hooks_order(ctx, 'R2-skeleton', d)
        D.check_return(ctx, 'R2-skeleton', d)
    for kind in ('pack', 'unpack'):
        g, t = by[('generic', kind)], by[('template', kind)]
        # both drivers implement the same failure discipline: the generic one was decided as an
        # event language against it, the generated one statement by statement (R2-skeleton above)
        bad = [o for o in ctx.obs if o.rule == 'R2-skeleton' and o.verdict != 'HOLDS' and (o.statement.startswith(g.label) or o.statement.startswith(t.label))]
        if not bad:
            ctx.holds('R2-sibling-handlers', t.where, '%s drivers: generic and generated' % kind, 'both add (cursor, field, class) to a passing PacketError and convert any other failure to PacketError(%s, field, class, cursor, message)' % (kind == 'unpack'), t.node.lineno, clause='a')
        elif all(o.verdict == 'UNDECIDED' for o in bad):
            ctx.undecided('R2-sibling-handlers', t.where, '%s drivers: %s' % (kind, bad[0].statement[:200]), 'one of the two drivers could not be decided (%s)' % bad[0].reason[:160], t.node.lineno, clause='a')
        else:
            wrong = [o for o in bad if o.verdict == 'VIOLATION'][0]
            ctx.violation('R2-sibling-handlers', t.where, '%s drivers: %s' % (kind, wrong.statement[:200]), 'the generated driver and the generic driver do not handle failures the same way (%s)' % wrong.reason[:160], t.node.lineno, clause='a', witness=True)
        # (b) per-field call
        gs = D.generic_loop_shape(ctx, 'R2-field-call', g)
        ts = D.template_loop_shape(ctx, 'R2-field-call', ctx.repo, kind)
        if gs is not None:
            D.check_call_signature(ctx, 'R2-field-call', g, gs, layout, g.where, g.label)
        if ts is not None:
            D.check_call_signature(ctx, 'R2-field-call', t, ts, layout, ts['template'].func, '%s loop block' % kind)
            # the block indexes the list returned by get_fields()
            a = ts['assign']
            v = a.value
            ok = isinstance(v, ast.Subscript) and isinstance(v.value, ast.Name) and v.value.id == 'fields' and isinstance(v.slice, ast.Name) and v.slice.id == '__HOLE_field_index__'
            src_ok = any(isinstance(s, ast.Assign) and isinstance(s.targets[0], ast.Name) and s.targets[0].id == 'fields'
                         and canon(s.value, t.rename) == 'PKT.get_fields()' for s in t.pre)
            if ok and src_ok:
                ctx.holds('R2-field-call', ts['template'].func, '%s loop block: %s with fields = pkt.get_fields()' % (kind, stmt_text(a)), 'indexes the same list the generic loop iterates', ts['template'].lineno, clause='b')
            else:
                ctx.violation('R2-field-call', ts['template'].func, '%s loop block: %s' % (kind, stmt_text(a)), 'the block does not index pkt.get_fields() by the field position', ts['template'].lineno, clause='b')
    return drivers


# ---------------------------------------------------------------- (c) partition

def _in_run_vocabulary(e, gname):
    """the expression is built only from the run, its members by constant index, integer
    constants, ``len``, ``+``/``-`` and comprehensions over the run: the forms whose value the
    partition rule can compare with the expected one"""
    if isinstance(e, ast.Constant):
        return isinstance(e.value, int)
    if isinstance(e, ast.Name):
        return True
    if isinstance(e, ast.Subscript):
        i = e.slice
        if isinstance(i, ast.UnaryOp) and isinstance(i.op, ast.USub):
            i = i.operand
        return isinstance(i, ast.Constant) and isinstance(i.value, int) and _in_run_vocabulary(e.value, gname)
    if isinstance(e, ast.BinOp) and isinstance(e.op, (ast.Add, ast.Sub)):
        return _in_run_vocabulary(e.left, gname) and _in_run_vocabulary(e.right, gname)
    if isinstance(e, ast.Call) and isinstance(e.func, ast.Name) and e.func.id in ('len', 'list', 'tuple') and len(e.args) == 1 and not e.keywords:
        return _in_run_vocabulary(e.args[0], gname)
    if isinstance(e, (ast.ListComp, ast.GeneratorExp)) and len(e.generators) == 1 and not e.generators[0].ifs:
        g = e.generators[0]
        return isinstance(g.target, (ast.Name, ast.Tuple)) and _in_run_vocabulary(g.iter, gname) and _in_run_vocabulary(e.elt, gname)
    return False


def check_partition(ctx):
    repo = ctx.repo
    cg = repo.cls('CodeGenerator')
    rule = 'R2-partition'
    n = 0
    for mname, fi in sorted(cg.methods.items()):
        params = [a.arg for a in fi.node.args.args]
        for node in ast.walk(fi.node):
            if isinstance(node, ast.Call) and call_name(node) in ('itertools.groupby', 'groupby') and node.args:
                n += 1
                src = node.args[0]
                st = '%s: groupby(%s, ...)' % (mname, canon(src))
                whole = canon(src) == 'self.fields' or (isinstance(src, ast.Name) and src.id in params) or \
                    (isinstance(src, ast.Name) and src.id in loop_vars_over_groups(fi.node))
                if not whole:
                    ctx.violation(rule, fi, st, 'the runs are not taken over the whole incoming field list (sliced / filtered / reordered): some fields get no block or blocks in the wrong order', node.lineno, clause='c')
                    continue
                # must sit in a comprehension without ifs collecting list(g)
                comp = enclosing_comp(fi.node, node)
                if comp is not None and any(g.ifs for g in comp.generators):
                    ctx.violation(rule, fi, st, 'the runs are filtered (comprehension with an if)', node.lineno, clause='c')
                    continue
                if comp is None:
                    # consumed by a loop instead of a comprehension: every run must reach the blocks
                    lp = next((x for x in ast.walk(fi.node) if isinstance(x, ast.For) and x.iter is node), None)
                    if lp is None:
                        ctx.undecided(rule, fi, st, 'the runs are neither collected by a comprehension nor consumed by a loop the rule can see', node.lineno, clause='c')
                        continue
                ctx.holds(rule, fi, st, 'order-preserving exhaustive partition into runs, no filter', node.lineno, clause='c')
    ctx.unit('groupby_sites', n)
    # consumers: for k, group in <runs>: on every path through the loop body the run reaches
    # an append / extend (directly, or through a loop over its sub-runs whose every path does)
    fi = cg.methods.get('generate_code')
    if fi is None:
        ctx.undecided(rule, (cg.file, 'CodeGenerator.generate_code'), 'generate_code', 'anchor not found')
    else:
        w = repo.walker(inline_depth=3, max_paths=ctx.max_paths)
        seen_loops = set()
        nloops = 0
        for p in w.paths(fi.node, cls=cg):
            for e in p.effects:
                if e.kind != 'loop' or e.sub['kind'] != 'for' or id(e.node) in seen_loops:
                    continue
                it = e.sub['iter']
                if it is None or not any(isinstance(x, ast.Call) and call_name(x) in ('itertools.groupby', 'groupby') for x in ast.walk(it)):
                    continue
                seen_loops.add(id(e.node))
                nloops += 1
                st = 'generate_code: for %s in %s' % (unparse(e.node.target), unparse(e.node.iter))
                missing = paths_dropping(e)
                if missing:
                    ctx.violation(rule, fi, st, 'a path through the loop body does not turn the run into code blocks appended to the result (%s): those fields are skipped by the generated code' % missing[0], e.node.lineno, clause='c')
                else:
                    ctx.holds(rule, fi, st, 'every path through the body appends the blocks generated for the run (or for each of its sub-runs), in order', e.node.lineno, clause='c')
        if not nloops:
            ctx.undecided(rule, fi, 'generate_code', 'no loop over the runs of the field list found', fi.node.lineno, clause='c')
    # loop blocks: zip(range(group[0][0], group[-1][0] + 1), [g[1] for g in group])
    gens = D.loop_generators(repo)
    if not gens:
        ctx.undecided(rule, (cg.file, 'CodeGenerator'), 'per-field loop block generators', 'anchor not found')
    for fi, kinds_ in gens:
        mname = fi.node.name
        if len(fi.node.args.args) < 2:
            ctx.undecided(rule, fi, mname, 'the generator does not take the run as its argument', fi.node.lineno, clause='c')
            continue
        gname = fi.node.args.args[1].arg
        zips = [x for x in ast.walk(fi.node) if isinstance(x, ast.Call) and call_name(x) == 'zip']
        enum_ok = False
        for z in zips:
            if len(z.args) == 2 and isinstance(z.args[0], ast.Call) and call_name(z.args[0]) == 'range':
                r = z.args[0]
                lo = canon(r.args[0], {gname: 'G'}) if len(r.args) == 2 else None
                hi = canon(r.args[1], {gname: 'G'}) if len(r.args) == 2 else None
                names = canon(z.args[1], {gname: 'G'})
                st = '%s: zip(range(%s, %s), %s)' % (mname, lo, hi, names)
                if lo == 'G[0][0]' and hi == '(G[(-1)][0] + 1)' and names in ('[_v0[1] for _v0 in G]', '(_v0[1] for _v0 in G)', 'list((_v0[1] for _v0 in G))', 'tuple((_v0[1] for _v0 in G))'):
                    ctx.holds(rule, fi, st, 'one block per member of the run, indexed by its position', z.lineno, clause='c')
                elif all(_in_run_vocabulary(x, gname) for x in (r.args[0], r.args[1], z.args[1])) if len(r.args) == 2 else False:
                    ctx.violation(rule, fi, st, 'the indices emitted do not cover exactly the positions of the run (expected range(group[0][0], group[-1][0] + 1) zipped with the run\'s names)', z.lineno, clause='c')
                else:
                    # the members of the run are read in a form the rule does not know (records with
                    # named parts, a helper): nothing is established either way
                    ctx.undecided(rule, fi, st, 'the positions and names of the run are read in a form the rule cannot compare with range(group[0][0], group[-1][0] + 1) zipped with the run\'s names', z.lineno, clause='c')
                enum_ok = True
        alt = [x for x in ast.walk(fi.node) if isinstance(x, (ast.ListComp, ast.GeneratorExp)) and canon(x.generators[0].iter, {gname: 'G'}) == 'G' and not x.generators[0].ifs]
        alt += [x for x in ast.walk(fi.node) if isinstance(x, ast.For) and canon(x.iter, {gname: 'G'}) == 'G'
                and not any(isinstance(y, (ast.Continue, ast.Break, ast.If)) for b_ in x.body for y in ast.walk(b_))]
        filtered = [x for x in ast.walk(fi.node) if isinstance(x, (ast.ListComp, ast.GeneratorExp)) and canon(x.generators[0].iter, {gname: 'G'}) == 'G' and x.generators[0].ifs]
        if not enum_ok and not alt and filtered:
            # members of the run are skipped: the generic loop calls the pack / unpack of every field,
            # so this is right only for fields whose pack and unpack do nothing at all
            flt = filtered[0].generators[0]
            verdict, why = _skipped_members_are_noops(repo, flt)
            st = '%s: for %s in run if %s' % (mname, canon(flt.target), canon(flt.ifs[0])[:60])
            if verdict is False:
                ctx.violation(rule, fi, st, 'fields are left out of the generated code although the generic loop calls them and they do something: %s' % why, filtered[0].lineno, clause='c', witness=True)
            elif verdict is True:
                ctx.holds(rule, fi, st, 'only fields whose pack and unpack do nothing are left out (%s)' % why, filtered[0].lineno, clause='c')
            else:
                ctx.undecided(rule, fi, st, 'members of the run are left out of the generated code: %s' % why, filtered[0].lineno, clause='c')
            continue
        if not enum_ok:
            if alt:
                ctx.holds(rule, fi, '%s: one block per element of the run' % mname, 'iterates the run itself', fi.node.lineno, clause='c')
            else:
                ctx.undecided(rule, fi, mname, 'cannot see how block indices are enumerated', fi.node.lineno, clause='c')
        # the index placed in the template is the zipped index
    # generators return (pack, unpack); templates pick c[0] / c[1]
    for mname, fi in sorted(cg.methods.items()):
        if not mname.startswith('generate_code_for_') or mname in ('generate_code_for_fixed_fields', 'generate_code_for_loop_pack', 'generate_code_for_loop_unpack'):
            continue
        if any(f_.id == fi.id and len(k_) == 1 for f_, k_ in gens):
            continue            # a per-field generator of one kind returns that kind's text, not a pair
        rets = [r for r in ast.walk(fi.node) if isinstance(r, ast.Return) and r.value is not None]
        for r in rets:
            v = r.value
            st = '%s returns %s' % (mname, canon(v)[:120])
            if isinstance(v, ast.Tuple) and len(v.elts) == 2:
                a, b = canon(v.elts[0]).lower(), canon(v.elts[1]).lower()
                if ('pack' in a and 'unpack' not in a and 'unpack' in b):
                    ctx.holds(rule, fi, st, '(pack block, unpack block)', r.lineno, clause='c')
                elif 'unpack' in a and 'pack' in b and 'unpack' not in b:
                    ctx.violation(rule, fi, st, 'generators must return (pack block, unpack block) in that order', r.lineno, clause='c', witness=True)
                else:
                    ctx.undecided(rule, fi, st, 'cannot tell which element of the pair is the pack block and which the unpack block', r.lineno, clause='c')
            else:
                ctx.undecided(rule, fi, st, 'generator does not return a 2-tuple display', r.lineno, clause='c')
    for t in ctx.repo.templates():
        for name, idx in (('pack_impl', 0), ('unpack_impl', 1)):
            if t.tree is not None and name in t.defines():
                v = t.values.get('blocks_of_code')
                picks = [x for x in ast.walk(v) if isinstance(x, ast.Subscript) and isinstance(x.slice, ast.Constant)] if v is not None else []
                st = '%s template: blocks_of_code = %s' % (name, canon(v)[:120] if v is not None else None)
                why = 'the %s driver must splice element %d of every generated pair, unfiltered' % (name, idx)
                filtered = v is not None and any(isinstance(x, (ast.ListComp, ast.GeneratorExp)) and any(g.ifs for g in x.generators) for x in ast.walk(v))
                if picks and any(x.slice.value != idx for x in picks):
                    ctx.violation(rule, t.func, st, why + ' (it takes element %s)' % sorted({x.slice.value for x in picks if x.slice.value != idx}), t.lineno, clause='c', witness=True)
                elif filtered:
                    ctx.violation(rule, t.func, st, why + ' (the blocks are filtered)', t.lineno, clause='c', witness=True)
                elif picks and 'for _v0 in codes' in canon(v):
                    ctx.holds(rule, t.func, st, 'all blocks, in order, taking element %d of each pair' % idx, t.lineno, clause='c')
                else:
                    got = _collected_side(t.func.node, v) if v is not None else None
                    if got == {idx}:
                        ctx.holds(rule, t.func, st, 'a list that collects element %d of each generated pair, in order' % idx, t.lineno, clause='c')
                    elif got:
                        ctx.violation(rule, t.func, st, why + ' (the list collects element %s)' % sorted(got), t.lineno, clause='c', witness=True)
                    else:
                        ctx.undecided(rule, t.func, st, 'cannot see which element of the generated pairs is spliced', t.lineno, clause='c')


def _collected_side(func, v):
    """the blocks are a local list filled by ``xs.append(a)`` with a the k-th component of a
    tuple loop target: {k, ...}; None when that is not how the list is made"""
    names = {x.id for x in ast.walk(v) if isinstance(x, ast.Name) and isinstance(x.ctx, ast.Load)} - {'indent', 'self', 'level'}
    out = set()
    for nm in names:
        adds = [c for c in ast.walk(func) if isinstance(c, ast.Call) and isinstance(c.func, ast.Attribute) and c.func.attr in ('append', 'extend', 'insert')
                and isinstance(c.func.value, ast.Name) and c.func.value.id == nm]
        stores = [a for a in ast.walk(func) if isinstance(a, ast.Assign) and any(isinstance(t_, ast.Name) and t_.id == nm for t_ in a.targets)]
        if not adds:
            continue
        if any(not (isinstance(a.value, ast.List) and not a.value.elts) for a in stores):
            return None
        for c in adds:
            if c.func.attr != 'append' or len(c.args) != 1 or not isinstance(c.args[0], ast.Name):
                return None
            k = None
            for loop in ast.walk(func):
                if isinstance(loop, ast.For) and isinstance(loop.target, ast.Tuple) and any(x is c for x in ast.walk(loop)):
                    ids = [e.id if isinstance(e, ast.Name) else None for e in loop.target.elts]
                    if c.args[0].id in ids and len(ids) == 2:
                        k = ids.index(c.args[0].id)
            if k is None:
                return None
            out.add(k)
    return out or None


def loop_vars_over_groups(func):
    out = set()
    for n in ast.walk(func):
        if isinstance(n, ast.For) and isinstance(n.target, ast.Tuple):
            for e in n.target.elts:
                if isinstance(e, ast.Name):
                    out.add(e.id)
    return out


def enclosing_comp(func, node):
    for n in ast.walk(func):
        if isinstance(n, (ast.ListComp, ast.GeneratorExp)):
            for g in n.generators:
                if g.iter is node:
                    return n
    return None


def paths_dropping(loop_eff):
    """descriptions of the body paths of a loop over runs on which the run (the loop item) does
    not reach an append / extend"""
    n = loop_eff.sub['phi']
    item = '<item of %s>' % n

    def mentions(e):
        return e is not None and any(isinstance(x, ast.Name) and x.id == item for x in ast.walk(e))

    missing = []
    for bp in loop_eff.sub['body']:
        if bp.raises():
            continue
        ok = False
        for e in bp.effects:
            if e.kind == 'call' and isinstance(e.call.func, ast.Attribute) and e.call.func.attr in ('append', 'extend', 'insert') \
                    and any(mentions(a) for a in e.call.args):
                ok = True
            elif e.kind == 'call' and isinstance(e.call.func, ast.Attribute) and e.call.func.attr in ('append', 'extend') \
                    and any(isinstance(x, ast.Name) and x.id.endswith('out') and '@phi' in x.id for a in e.call.args for x in ast.walk(a)):
                # blocks accumulated by an inner loop (a local list extended there) are appended here
                ok = ok or any(i.kind == 'loop' and mentions(i.sub['iter']) and not paths_dropping(i) for i in bp.effects)
            elif e.kind == 'loop' and e.sub['kind'] == 'for' and mentions(e.sub['iter']):
                if not paths_dropping(e):
                    ok = True
        if not ok:
            missing.append('path [%s]' % '; '.join(bp.guard_texts())[:200])
    return missing


# ---------------------------------------------------------------- (d) struct block

def check_struct_block(ctx):
    repo = ctx.repo
    cg = repo.cls('CodeGenerator')
    rule = 'R2-struct-block'
    fi = cg.methods.get('generate_code_for_fixed_fields_with_struct_code')
    if fi is None:
        raise Undecided('anchor CodeGenerator.generate_code_for_fixed_fields_with_struct_code not found')
    ctx.unit('functions')
    params = [a.arg for a in fi.node.args.args]
    if len(params) < 3:
        raise Undecided('struct block generator does not take (self, group, is_bigendian)')
    G, BE = params[1], params[2]
    w = repo.walker()
    paths = w.paths(fi.node, cls=cg)
    if len(paths) != 1:
        ctx.undecided(rule, fi, fi.qual, 'expected one path, found %d' % len(paths), fi.node.lineno)
        return
    env = paths[0].env
    # the locals that fill the fmt / lookup_fields holes of this generator's templates
    roles = {}
    for t in repo.templates():
        if t.func.id == fi.id:
            for hole in ('fmt', 'lookup_fields', 'advance'):
                v = t.values.get(hole)
                if v is not None:
                    base = v
                    while isinstance(base, ast.Subscript):
                        base = base.value
                    if isinstance(base, ast.Name):
                        roles.setdefault(hole, base.id)
    FMT, LF = roles.get('fmt', 'fmt'), roles.get('lookup_fields', 'lookup_fields')
    # fmt
    fmt = env.get(FMT)
    want_prefix = "('>' if %s else '<')" % BE
    st = 'fmt = %s' % (canon(fmt) if fmt is not None else None)
    ok = False
    if isinstance(fmt, ast.BinOp) and isinstance(fmt.op, ast.Add):
        pre, codes = fmt.left, fmt.right
        okp = canon(pre) == want_prefix
        okc = False
        if isinstance(codes, ast.Call) and isinstance(codes.func, ast.Attribute) and codes.func.attr == 'join' and isinstance(codes.func.value, ast.Constant) \
                and codes.func.value.value == '' and codes.args:
            sh = run_projection(repo, codes.args[0], G)
            okc = None
            if sh is not None and sh[0] == 'not-the-run':
                okc = False
            elif sh is not None and isinstance(sh[2], ast.Attribute) and sh[2].attr == 'struct_code':
                okc = member_component(repo, sh[2].value, sh[1], 2)
        if okp and okc is None:
            ctx.undecided(rule, fi, st, 'cannot see that the codes are the struct_code of every member of the run, in order', fi.node.lineno, clause='d')
        elif okp and okc:
            ok = True
            ctx.holds(rule, fi, st, "prefix from the run's endianness, then every member's struct_code in run order", fi.node.lineno, clause='d')
        elif not okp:
            ctx.violation(rule, fi, st, "the prefix must be '>' if is_bigendian else '<' (as in Int._compile)", fi.node.lineno, clause='d')
        else:
            ctx.violation(rule, fi, st, 'the codes are not the struct_code of every member of the run in order', fi.node.lineno, clause='d')
    else:
        ctx.violation(rule, fi, st, 'the struct format is not prefix + codes', fi.node.lineno, clause='d')
    # lookup fields: same order over the same run
    lf = env.get(LF)
    st = 'lookup_fields = %s' % (canon(lf, {G: 'G'}) if lf is not None else None)
    oklf = False
    if isinstance(lf, ast.Call) and isinstance(lf.func, ast.Attribute) and lf.func.attr == 'join' and lf.args:
        sh = run_projection(repo, lf.args[0], G)
        if sh is not None and sh[0] == 'not-the-run':
            oklf = False
        elif sh is not None and isinstance(sh[2], ast.BinOp) and isinstance(sh[2].op, ast.Mod) and isinstance(sh[2].left, ast.Constant) \
                and isinstance(sh[2].left.value, str) and sh[2].left.value.startswith('pkt.%(name)s'):
            d = sh[2].right
            if isinstance(d, ast.Dict) and len(d.keys) == 1 and d.keys[0].value == 'name':
                oklf = member_component(repo, d.values[0], sh[1], 1)
            else:
                oklf = None
        else:
            oklf = None
    else:
        oklf = None
    if oklf is None:
        ctx.undecided(rule, fi, st[:160], 'cannot see that the targets / values are pkt.<name> for every member of the run, in run order', fi.node.lineno, clause='d')
    elif oklf:
        ctx.holds(rule, fi, st[:160], 'pkt.<name> for every member of the run in run order', fi.node.lineno, clause='d')
    else:
        ctx.violation(rule, fi, st[:200], 'targets / values are not pkt.<name> for every member of the run, in run order', fi.node.lineno, clause='d')
    # templates: advance, fmt, lookup holes
    for t in repo.templates():
        if t.func.id != fi.id or t.tree is None:
            continue
        ctx.unit('templates')
        is_unpack = 'StructUnpack' in t.text
        v = t.values
        st = '%s struct template holes' % ('unpack' if is_unpack else 'pack')
        bad = []
        if 'fmt' not in v or canon(v['fmt']) != FMT:
            bad.append('fmt hole is %s' % (canon(v['fmt']) if 'fmt' in v else 'missing'))
        if is_unpack:
            if 'advance' not in v or canon(v['advance']) != 'struct.calcsize(%s)' % FMT:
                bad.append('advance is %s, expected struct.calcsize(fmt)' % (canon(v['advance']) if 'advance' in v else 'missing'))
            if 'lookup_fields' not in v or canon(v['lookup_fields']) != LF:
                bad.append('targets are %s' % (canon(v['lookup_fields']) if 'lookup_fields' in v else 'missing'))
            body = t.tree.body
            txt = [stmt_text(s) for s in body]
            want = ['name = \'__HOLE_name__\'', 'next_offset = offset + __HOLE_advance__',
                    "__HOLE_lookup_fields__ = StructUnpack('__HOLE_fmt__', raw[offset:next_offset])", 'offset = next_offset']
            if [x for x in txt] != want:
                # accept any order-preserving equivalent: decode slice must be raw[offset:offset+advance]
                dec = [s for s in body if isinstance(s, ast.Assign) and isinstance(s.value, ast.Call) and canon(s.value.func) == 'StructUnpack']
                if not dec or len(dec[0].value.args) != 2 or canon(dec[0].value.args[1]) not in ('raw[offset:next_offset]', 'raw[offset:(offset + __HOLE_advance__)]'):
                    bad.append('the block does not decode raw[offset:offset+advance] with StructUnpack(fmt, ...)')
                if not dec or canon(dec[0].value.args[0]) != "'__HOLE_fmt__'":
                    bad.append('StructUnpack is not called with the run format')
        else:
            if 'lookup_fields' not in v or canon(v['lookup_fields']) not in ('%s[:(-1)]' % LF, LF):
                bad.append('values are %s' % (canon(v['lookup_fields']) if 'lookup_fields' in v else 'missing'))
            calls = [n for n in ast.walk(t.tree) if isinstance(n, ast.Call) and canon(n.func) == 'fragments.append']
            if len(calls) != 1 or not (isinstance(calls[0].args[0], ast.Call) and canon(calls[0].args[0].func) == 'StructPack'
                                       and canon(calls[0].args[0].args[0]) == "'__HOLE_fmt__'" and len(calls[0].args[0].args) == 2
                                       and canon(calls[0].args[0].args[1]) == '__HOLE_lookup_fields__'):
                bad.append('the block is not fragments.append(StructPack(fmt, <values>))')
        if bad:
            ctx.violation(rule, fi, st, '; '.join(bad), t.lineno, clause='d')
        else:
            ctx.holds(rule, fi, st, 'same format on both sides; advance = struct.calcsize(fmt); values/targets from the same run' if is_unpack else 'fragments.append(StructPack(fmt, values of the run))', t.lineno, clause='d')
    # call sites: endianness homogeneity
    ff = cg.methods.get('generate_code_for_fixed_fields')
    if ff is None:
        raise Undecided('anchor CodeGenerator.generate_code_for_fixed_fields not found')
    sites = [n for n in ast.walk(ff.node) if isinstance(n, ast.Call) and isinstance(n.func, ast.Attribute) and n.func.attr == fi.node.name]
    ctx.unit('struct_block_call_sites', len(sites))
    for c in sites:
        args = list(c.args) + [k.value for k in c.keywords]
        st = stmt_text(c)
        if len(args) != 2:
            ctx.undecided(rule, ff, st, 'call does not pass (group, is_bigendian)', c.lineno, clause='d')
            continue
        grp, be = args
        comp = None
        for n in ast.walk(ff.node):
            if isinstance(n, (ast.ListComp, ast.GeneratorExp)) and any(x is c for x in ast.walk(n.elt)):
                comp = n
        if comp is None:
            # plain loop:  for k, g in runs: ...generate(g, k)
            loop = None
            for n in ast.walk(ff.node):
                if isinstance(n, ast.For) and any(x is c for x in ast.walk(n)) and isinstance(n.target, ast.Tuple) and isinstance(grp, ast.Name) \
                        and grp.id in [canon(x) for x in n.target.elts]:
                    loop = n
            if loop is None:
                ctx.undecided(rule, ff, st, 'cannot find where the run handed to the struct block comes from', c.lineno, clause='d')
                continue
            keyed = find_groupby_key(ff.node, loop.iter)
            names = [canon(x) for x in loop.target.elts]
            if keyed is not None and keyed.endswith('.is_bigendian') and isinstance(be, ast.Name) and names == [be.id, grp.id]:
                ctx.holds(rule, ff, st, 'run keyed on is_bigendian, packed with that key', c.lineno, clause='d')
            elif keyed is None:
                # the runs come from something the rule does not read as a groupby (a helper that returns
                # the (key, run) pairs): no verdict -- a key that IS found and is not the endianness is one
                ctx.undecided(rule, ff, st, 'cannot see what the runs handed to the struct block are keyed on', c.lineno, clause='d')
            else:
                ctx.violation(rule, ff, st, 'the run handed to the struct block is keyed on %s and packed with %s: fields of different endianness share one format prefix' % (keyed, canon(be)), c.lineno, clause='d', witness=True)
            continue
        gen = comp.generators[0]
        # case 1: singleton [(a, b, f)] with f.is_bigendian
        if isinstance(grp, ast.List) and len(grp.elts) == 1 and isinstance(grp.elts[0], ast.Tuple) and len(grp.elts[0].elts) == 3:
            f = grp.elts[0].elts[2]
            if isinstance(be, ast.Attribute) and be.attr == 'is_bigendian' and canon(be.value) == canon(f) and canon(gen.target) == canon(grp.elts[0]) and not gen.ifs:
                ctx.holds(rule, ff, st, 'singleton run packed with its own endianness', c.lineno, clause='d')
            else:
                ctx.violation(rule, ff, st, 'a single field is packed with an endianness that is not its own is_bigendian', c.lineno, clause='d')
            continue
        # case 2: (k, g) from a groupby keyed on is_bigendian
        if isinstance(grp, ast.Name) and isinstance(be, ast.Name) and isinstance(gen.target, ast.Tuple) and [canon(x) for x in gen.target.elts] == [be.id, grp.id] and not gen.ifs:
            src = gen.iter
            keyed = find_groupby_key(ff.node, src)
            if keyed is not None and keyed.endswith('.is_bigendian'):
                ctx.holds(rule, ff, st, 'run keyed on is_bigendian, packed with that key', c.lineno, clause='d')
            elif keyed is None:
                # the (key, run) pairs come from a helper: every return of it must be runs keyed on
                # the endianness or singletons with their own endianness
                if isinstance(src, ast.Name):
                    binds_ = [n_.value for n_ in ast.walk(ff.node) if isinstance(n_, ast.Assign) and len(n_.targets) == 1 and isinstance(n_.targets[0], ast.Name) and n_.targets[0].id == src.id]
                    if len(binds_) == 1:
                        src = binds_[0]
                v, why = helper_runs_verdict(repo, cg, src)
                j_ = joins_run_without_same_endianness(ff.node) if v is None else None
                if j_ is not None:
                    v, why = False, 'runs that a field joins under (%s): not only when it has the endianness of that run' % j_
                if v is None and isinstance(src, ast.Call) and isinstance(src.func, ast.Attribute) and src.func.attr in ('items', 'values') and isinstance(src.func.value, ast.Name):
                    # the runs are the values of a mapping filled member by member: all the members with
                    # one key end in one group wherever they stand -- not runs of neighbours
                    dname = src.func.value.id
                    fills = [n for n in ast.walk(ff.node) if isinstance(n, ast.Call) and isinstance(n.func, ast.Attribute) and n.func.attr == 'append'
                             and ((isinstance(n.func.value, ast.Call) and isinstance(n.func.value.func, ast.Attribute) and n.func.value.func.attr == 'setdefault'
                                   and canon(n.func.value.func.value) == dname) or (isinstance(n.func.value, ast.Subscript) and canon(n.func.value.value) == dname))]
                    if fills:
                        v, why = False, 'the mapping %s, which collects the fields by key regardless of where they stand: fields that are not neighbours are packed in one struct call, so the order of the fields on the wire changes' % dname
                if v is True:
                    ctx.holds(rule, ff, st, 'runs from %s' % why, c.lineno, clause='d')
                elif v is False:
                    ctx.violation(rule, ff, st, 'the runs handed to the struct block come from %s: fields of different endianness share one format prefix' % why, c.lineno, clause='d', witness=True)
                else:
                    ctx.undecided(rule, ff, st, 'cannot see what the runs handed to the struct block are keyed on (%s)' % why, c.lineno, clause='d')
            else:
                ctx.violation(rule, ff, st, 'the run handed to the struct block is not a groupby run keyed on is_bigendian (key: %s): fields of different endianness share one format prefix' % keyed, c.lineno, clause='d', witness=True)
            continue
        # case 1': singleton [entry] with entry.<field>.is_bigendian, entry the comprehension's element
        if isinstance(grp, ast.List) and len(grp.elts) == 1 and isinstance(grp.elts[0], ast.Name) and isinstance(gen.target, ast.Name) \
                and grp.elts[0].id == gen.target.id and not gen.ifs and isinstance(be, ast.Attribute) and be.attr == 'is_bigendian':
            own = member_component(repo, be.value, gen.target, 2)
            if own:
                ctx.holds(rule, ff, st, 'singleton run packed with its own endianness', c.lineno, clause='d')
            elif own is False:
                ctx.violation(rule, ff, st, 'a single field is packed with an endianness that is not its own is_bigendian', c.lineno, clause='d', witness=True)
            else:
                ctx.undecided(rule, ff, st, 'cannot see that the endianness is the field\'s own', c.lineno, clause='d')
            continue
        # the endianness of the first member of ANOTHER list than the run that is packed
        if isinstance(grp, ast.Name) and isinstance(be, ast.Attribute) and be.attr == 'is_bigendian':
            base = be.value
            while isinstance(base, (ast.Subscript, ast.Attribute)):
                base = base.value
            if isinstance(base, ast.Name) and base.id != grp.id and base.id not in [x.id for x in ast.walk(gen.target) if isinstance(x, ast.Name)]:
                ctx.violation(rule, ff, st, 'the run %s is packed with the endianness of a member of %s, another list: fields of different endianness share one format prefix' % (grp.id, base.id), c.lineno, clause='d', witness=True)
                continue
        ctx.undecided(rule, ff, st, 'the run handed to the struct block is neither a singleton with its own endianness nor a run keyed on is_bigendian in a form the rule reads', c.lineno, clause='d')
    ctx.floor('struct-block call sites', len(sites), 2)


def comp_over_run(node, G):
    """node is a comprehension over the run ``G`` with a 3-tuple target and no filter:
    returns ([name0, name1, name2], elt) else None"""
    if not isinstance(node, (ast.ListComp, ast.GeneratorExp)) or len(node.generators) != 1:
        return None
    g = node.generators[0]
    if g.ifs or not (isinstance(g.iter, ast.Name) and g.iter.id == G):
        return None
    if not (isinstance(g.target, ast.Tuple) and len(g.target.elts) == 3 and all(isinstance(x, ast.Name) for x in g.target.elts)):
        return None
    return [x.id for x in g.target.elts], node.elt


def run_projection(repo, node, G):
    """node: a comprehension over the run G.  -> ('over-run', target, elt) when it visits every member
    of G once, in order; ('not-the-run', why) when it visibly does not (a filter, another
    iterable); None when it is not a comprehension at all"""
    if not isinstance(node, (ast.ListComp, ast.GeneratorExp)) or len(node.generators) != 1:
        return None
    g = node.generators[0]
    if g.ifs:
        return ('not-the-run', 'members are filtered')
    if not (isinstance(g.iter, ast.Name) and g.iter.id == G):
        return ('not-the-run', 'iterates %s' % canon(g.iter)[:40])
    return ('over-run', g.target, node.elt)


def member_component(repo, e, target, idx):
    """does ``e`` denote component ``idx`` of the (index, name, field) entry bound by ``target``?
    True / False / None (cannot tell).  The entry may be unpacked by a tuple target, indexed,
    or read through a field name of a namedtuple of the module"""
    if isinstance(target, ast.Tuple) and len(target.elts) == 3 and all(isinstance(x, ast.Name) for x in target.elts):
        if isinstance(e, ast.Name):
            ids = [x.id for x in target.elts]
            return ids.index(e.id) == idx if e.id in ids else None
        return None
    if isinstance(target, ast.Name):
        if isinstance(e, ast.Subscript) and isinstance(e.value, ast.Name) and e.value.id == target.id and isinstance(e.slice, ast.Constant):
            return e.slice.value == idx
        if isinstance(e, ast.Attribute) and isinstance(e.value, ast.Name) and e.value.id == target.id:
            from .c09 import namedtuple_fields
            hits = {tuple(f) for f in namedtuple_fields(repo.modules['codegen']['tree']).values() if e.attr in f}
            if len(hits) == 1:
                return list(hits)[0].index(e.attr) == idx
    return None


def find_groupby_key(func, src):
    """src is a Name bound to [(k, list(g)) for k, g in groupby(X, lambda t: t[2].ATTR)] -> 'ATTR path'"""
    if not isinstance(src, ast.Name):
        return None
    for n in ast.walk(func):
        if isinstance(n, ast.Assign) and isinstance(n.targets[0], ast.Name) and n.targets[0].id == src.id:
            for c in ast.walk(n.value):
                if isinstance(c, ast.Call) and call_name(c) in ('itertools.groupby', 'groupby') and len(c.args) == 2:
                    lam = c.args[1]
                    if isinstance(lam, ast.Name):
                        # key = lambda ...: bound once in the function
                        defs = [a.value for a in ast.walk(func) if isinstance(a, ast.Assign) and len(a.targets) == 1 and isinstance(a.targets[0], ast.Name) and a.targets[0].id == lam.id]
                        lam = defs[0] if len(defs) == 1 else None
                    if isinstance(lam, ast.Lambda) and lam.args.args:
                        return canon(lam.body, {lam.args.args[0].arg: 'T'})
    return None


def _skipped_members_are_noops(repo, gen):
    """the filter ``if not f.<flag>`` / ``if f.<flag> is False`` on the field of a run member: every
    field class whose constructor can set <flag> to something else than False must have pack /
    unpack strategies that do nothing (return the fragments / the cursor)"""
    if len(gen.ifs) != 1:
        return None, 'more than one filter'
    t = gen.ifs[0]
    flag = None
    if isinstance(t, ast.UnaryOp) and isinstance(t.op, ast.Not) and isinstance(t.operand, ast.Attribute):
        flag = t.operand.attr
    if flag is None:
        return None, 'filter %s is not of the form "not field.<flag>"' % canon(t)[:50]
    may_skip, open_ = [], []
    for ci in repo.field_classes():
        init = ci.methods.get('__init__')
        if init is None:
            continue
        for n in ast.walk(init.node):
            if isinstance(n, ast.Assign) and any(isinstance(x, ast.Attribute) and x.attr == flag and canon(x.value) == 'self' for x in n.targets):
                if isinstance(n.value, ast.Constant) and n.value.value is True:
                    may_skip.append(ci)
                elif not (isinstance(n.value, ast.Constant) and n.value.value is False):
                    open_.append(ci)
    if not may_skip and not open_:
        return None, 'no field class sets %s' % flag
    for ci in may_skip:
        for kind, ret in (('pack', 'fragments'), ('unpack', 'offset')):
            for s_ in repo.strategies(ci):
                f_ = s_.get(kind)
                if f_ is None:
                    continue
                body = [b for b in f_.node.body if not (isinstance(b, ast.Expr) and isinstance(b.value, ast.Constant))]
                if any(isinstance(x, ast.Call) for b in body for x in ast.walk(b)) or any(isinstance(b, (ast.Assign, ast.AugAssign)) for b in body):
                    if all(isinstance(b, ast.Return) for b in body):
                        continue
                    return False, '%s sets %s and its %s (%s) is not a no-op' % (ci.name, flag, kind, f_.qual)
    if open_:
        return None, '%s sets %s from a constructor argument: which of its strategies are skipped is not followed' % (open_[0].name, flag)
    return True, '%s' % ', '.join(sorted({c.name for c in may_skip}))


def check_pending_run_is_flushed_first(ctx, rule='R2-partition'):
    """Round 8.  a generator that walks the fields once and collects the struct-coded ones in a
    pending run (emitted by a flush step) must flush before it emits a block for any other field:
    a block appended while the run is pending comes out before fields declared earlier"""
    repo = ctx.repo
    cg = repo.cls('CodeGenerator')
    for mname, fi in cg.methods.items():
        if not mname.startswith('generate_code'):
            continue
        for loop in [n for n in ast.walk(fi.node) if isinstance(n, ast.For)]:
            # the accumulator: a local list to which the loop variable (or an element made of it) is appended
            lv = {x.id for x in ast.walk(loop.target) if isinstance(x, ast.Name)}
            accs = {canon(c.func.value) for c in ast.walk(loop) if isinstance(c, ast.Call) and isinstance(c.func, ast.Attribute) and c.func.attr == 'append'
                    and isinstance(c.func.value, ast.Name) and c.args and isinstance(c.args[0], ast.Name) and c.args[0].id in lv}
            if not accs:
                continue
            acc = sorted(accs)[0]
            # flush steps: local functions (or statements) that clear the accumulator
            flush_defs = {d.name for d in ast.walk(fi.node) if isinstance(d, ast.FunctionDef) and d is not fi.node and any(
                (isinstance(x, ast.Delete) and any(canon(t.value) == acc for t in x.targets if isinstance(t, ast.Subscript))) or
                (isinstance(x, ast.Call) and isinstance(x.func, ast.Attribute) and x.func.attr == 'clear' and canon(x.func.value) == acc) or
                (isinstance(x, ast.Assign) and any(canon(t) == acc for t in x.targets)) for x in ast.walk(d))}
            if not flush_defs:
                continue
            sinks = {canon(c.func.value) for d in ast.walk(fi.node) if isinstance(d, ast.FunctionDef) and d.name in flush_defs
                     for c in ast.walk(d) if isinstance(c, ast.Call) and isinstance(c.func, ast.Attribute) and c.func.attr in ('append', 'extend')}
            ctx.unit('single_pass_generators')

            def clears(node):
                return any((isinstance(x, ast.Delete) and any(isinstance(t, ast.Subscript) and canon(t.value) == acc for t in x.targets)) or
                           (isinstance(x, ast.Call) and isinstance(x.func, ast.Attribute) and x.func.attr == 'clear' and canon(x.func.value) == acc) or
                           (isinstance(x, ast.Assign) and any(canon(t) == acc for t in x.targets)) for x in ast.walk(node))

            def scan(stmts, flushed):
                for st in stmts:
                    if isinstance(st, ast.If) and canon(st.test) in (acc, 'len(%s)' % acc, '(len(%s) > 0)' % acc) and clears(st) and not st.orelse:
                        flushed = True          # the flush step expanded in place: if run: emit(run); clear
                        continue
                    if isinstance(st, ast.If):
                        scan(st.body, flushed)
                        scan(st.orelse, flushed)
                        continue
                    calls = [c for c in ast.walk(st) if isinstance(c, ast.Call)]
                    if any(isinstance(c.func, ast.Name) and c.func.id in flush_defs for c in calls):
                        flushed = True
                    emits = [c for c in calls if isinstance(c.func, ast.Attribute) and c.func.attr in ('append', 'extend') and canon(c.func.value) in sinks
                             and not any(isinstance(x, ast.Name) and x.id == acc for a_ in c.args for x in ast.walk(a_))]
                    for c in emits:
                        st_txt = '%s: %s' % (mname, stmt_text(st)[:90])
                        if flushed:
                            ctx.holds(rule, fi, st_txt, 'the pending run is emitted before this block', st.lineno, clause='c')
                        else:
                            ctx.violation(rule, fi, st_txt, 'a block is emitted for this field while the run of struct-coded fields collected so far (%s) is still pending: that run is emitted later, so the generated code packs / parses the fields out of declaration order' % acc, st.lineno, clause='c', witness=True)
            scan(loop.body, False)


def _same_sequence(v, name):
    if isinstance(v, ast.Call) and isinstance(v.func, ast.Name) and v.func.id in ('list', 'tuple') and len(v.args) == 1 and not v.keywords:
        return isinstance(v.args[0], ast.Name) and v.args[0].id == name
    if isinstance(v, ast.ListComp) and len(v.generators) == 1 and not v.generators[0].ifs and isinstance(v.generators[0].target, ast.Name) \
            and isinstance(v.elt, ast.Name) and v.elt.id == v.generators[0].target.id:
        return isinstance(v.generators[0].iter, ast.Name) and v.generators[0].iter.id == name
    return False


def joins_run_without_same_endianness(node):
    """runs built member by member: a member joins the open run (``runs[-1]...append(member)``) only
    when it has that run's endianness.  Returns the text of a joining test that lets members of
    another endianness in, else None"""
    def needs_same_endianness(t):
        if isinstance(t, ast.Compare) and len(t.ops) == 1 and isinstance(t.ops[0], (ast.Eq, ast.Is)):
            return any(canon(x).endswith('.is_bigendian') for x in (t.left, t.comparators[0])) and not any(isinstance(x, ast.Constant) for x in (t.left, t.comparators[0]))
        if isinstance(t, ast.BoolOp) and isinstance(t.op, ast.And):
            return any(needs_same_endianness(v) for v in t.values)
        if isinstance(t, ast.BoolOp) and isinstance(t.op, ast.Or):
            return all(needs_same_endianness(v) for v in t.values)
        return False
    # a local one-expression predicate used as the joining test is read through
    local = {}
    for d in ast.walk(node):
        if isinstance(d, ast.FunctionDef) and d is not node:
            body = [b for b in d.body if not (isinstance(b, ast.Expr) and isinstance(b.value, ast.Constant))]
            if len(body) == 1 and isinstance(body[0], ast.Return) and body[0].value is not None:
                local[d.name] = ([a.arg for a in d.args.args], body[0].value)
    from ..expr import subst
    for n in ast.walk(node):
        if isinstance(n, ast.If):
            joins = [c for b in n.body for c in ast.walk(b) if isinstance(c, ast.Call) and isinstance(c.func, ast.Attribute) and c.func.attr in ('append', 'extend')
                     and isinstance(c.func.value, ast.Subscript) and '[(-1)]' in canon(c.func.value)]
            test = n.test
            if isinstance(test, ast.Call) and isinstance(test.func, ast.Name) and test.func.id in local and len(test.args) == len(local[test.func.id][0]) and not test.keywords:
                prm, body_ = local[test.func.id]
                test = subst(body_, dict(zip(prm, test.args)))
            if joins and any('is_bigendian' in canon(x) for x in ast.walk(test) if isinstance(x, ast.Attribute)) and not needs_same_endianness(test):
                return canon(test)[:110]
    return None


def helper_runs_verdict(repo, cg, src):
    """src = self.<helper>(group): every return of the helper is a list of (endianness, run) pairs;
    -> (True, text) when each return is visibly runs of a groupby keyed on is_bigendian or singletons
    paired with their own is_bigendian; (False, text) when one is a groupby keyed on something else;
    (None, why) otherwise"""
    if not (isinstance(src, ast.Call) and isinstance(src.func, ast.Attribute) and isinstance(src.func.value, ast.Name)
            and src.func.value.id == 'self' and src.func.attr in cg.methods):
        return None, 'not a call of a method of the generator'
    h = cg.methods[src.func.attr]
    rets = [n for n in ast.walk(h.node) if isinstance(n, ast.Return)]
    if not rets:
        return None, '%s has no return' % h.node.name
    j = joins_run_without_same_endianness(h.node)
    if j is not None:
        return False, '%s, where a field joins the open run under (%s): not only when it has the endianness of that run' % (h.node.name, j)
    seen = []
    for r in rets:
        v = r.value
        if not isinstance(v, (ast.ListComp, ast.GeneratorExp)) or len(v.generators) != 1 or v.generators[0].ifs:
            return None, 'a return of %s is not one comprehension' % h.node.name
        g = v.generators[0]
        elt = v.elt
        if not (isinstance(elt, ast.Tuple) and len(elt.elts) == 2):
            return None, 'a return of %s does not build (endianness, run) pairs' % h.node.name
        be, run = elt.elts
        it = g.iter
        if isinstance(it, ast.Call) and call_name(it) in ('itertools.groupby', 'groupby') and len(it.args) == 2:
            lam = it.args[1]
            if isinstance(lam, ast.Name):
                defs = [a.value for a in ast.walk(h.node) if isinstance(a, ast.Assign) and len(a.targets) == 1 and isinstance(a.targets[0], ast.Name) and a.targets[0].id == lam.id]
                lam = defs[0] if len(defs) == 1 else None
            if not (isinstance(lam, ast.Lambda) and lam.args.args):
                return None, 'groupby key of %s is not a lambda' % h.node.name
            keyed = canon(lam.body, {lam.args.args[0].arg: 'T'})
            names = [canon(x) for x in g.target.elts] if isinstance(g.target, ast.Tuple) else []
            runname = run.args[0] if isinstance(run, ast.Call) and call_name(run) in ('list', 'tuple') and len(run.args) == 1 else run
            if len(names) != 2 or canon(be) != names[0] or canon(runname) != names[1]:
                return None, 'pairs of %s are not (key, run) of the groupby' % h.node.name
            if not keyed.endswith('.is_bigendian'):
                return False, '%s, a groupby keyed on %s' % (h.node.name, keyed)
            seen.append('groupby keyed on is_bigendian')
            continue
        # singletons: (f.is_bigendian, [member]) for member in group
        if isinstance(run, ast.List) and len(run.elts) == 1 and isinstance(be, ast.Attribute) and be.attr == 'is_bigendian' \
                and canon(run.elts[0]) == canon(g.target):
            own = member_component(repo, be.value, g.target, 2)
            if own:
                seen.append('singletons with their own endianness')
                continue
            if own is False:
                return False, '%s, singletons paired with an endianness that is not their own' % h.node.name
        return None, 'a return of %s is in a form the rule does not read' % h.node.name
    return True, '%s: %s' % (h.node.name, ' / '.join(seen))


# ---------------------------------------------------------------- (e) options

def check_options(ctx):
    repo = ctx.repo
    rule = 'R2-option-plumbing'
    pb = repo.cls('PacketClassBuilder')
    co = pb.methods.get('create_optimized_code')
    cg = repo.cls('CodeGenerator')
    ginit = cg.methods.get('__init__')
    if co is None or ginit is None:
        raise Undecided('anchor create_optimized_code / CodeGenerator.__init__ not found')
    ctx.unit('functions', 2)
    w = repo.walker()
    paths = w.paths(co.node, cls=pb)
    gparams = [a.arg for a in ginit.node.args.args][1:]
    calls = []
    for p in paths:
        for e in p.calls(lambda e: call_name(e.call) in ('bisturi.codegen.CodeGenerator', 'CodeGenerator', 'codegen.CodeGenerator')):
            calls.append((p, e))
    if not calls:
        ctx.undecided(rule, co, 'create_optimized_code', 'no CodeGenerator(...) call found', co.node.lineno, clause='e')
        return
    p, e = calls[0]
    bound = {}
    for nm, a in zip(gparams, e.call.args):
        bound[nm] = a
    for k in e.call.keywords:
        if k.arg:
            bound[k.arg] = k.value
    defaults_want = {'vectorize': 'True', 'annotate': 'True'}
    for opt in ('generate_for_pack', 'generate_for_unpack', 'vectorize', 'annotate'):
        v = bound.get(opt)
        st = 'CodeGenerator(%s=%s)' % (opt, canon(v)[:100] if v is not None else 'missing')
        if v is None:
            ctx.violation(rule, co, st, 'the option does not reach the code generator', e.lineno, clause='e')
            continue
        ok = isinstance(v, ast.Call) and isinstance(v.func, ast.Attribute) and v.func.attr == 'get' and '__bisturi__' in canon(v.func.value) \
            and v.args and isinstance(v.args[0], ast.Constant) and v.args[0].value == opt
        if not ok:
            ctx.violation(rule, co, st, "the generator parameter %s is not filled from __bisturi__.get('%s', ...): options are swapped or ignored" % (opt, opt), e.lineno, clause='e')
            continue
        dflt = v.args[1] if len(v.args) > 1 else None
        if opt in defaults_want:
            if dflt is None or canon(dflt) != defaults_want[opt]:
                ctx.violation(rule, co, st, 'documented default of %s is %s' % (opt, defaults_want[opt]), e.lineno, clause='e')
                continue
        else:
            dt = canon(dflt) if dflt is not None else ''
            if dt not in ('(True if not self.am_in_debug_mode else False)', 'not self.am_in_debug_mode'):
                ctx.violation(rule, co, st, 'generation must default to on unless the class is in debug mode (got %s)' % dt, e.lineno, clause='e')
                continue
        ctx.holds(rule, co, st[:140], 'read under its own name with the documented default', e.lineno, clause='e')
    # fields argument: enumerate over the whole field list -> (i, name, field)
    fv = bound.get('fields')
    st = 'CodeGenerator(fields=%s)' % (canon(fv)[:120] if fv is not None else None)
    if fv is not None and _is_position_name_field(fv):
        ctx.holds(rule, co, st, '(position, name, field) for every entry of the get_fields() list', e.lineno, clause='e')
    else:
        ctx.violation(rule, co, st, 'the generator must receive (position, name, field) for every entry of the list returned by get_fields(), in order', e.lineno, clause='e')
    pc = bound.get('pkt_class')
    if pc is None or canon(pc) != 'self.cls':
        ctx.violation(rule, co, 'CodeGenerator(pkt_class=%s)' % (canon(pc) if pc is not None else None), 'the generated functions are installed on another class', e.lineno, clause='e')
    # CodeGenerator.__init__ stores them unchanged
    for opt in ('generate_for_pack', 'generate_for_unpack', 'vectorize', 'fields', 'pkt_class'):
        ok = False
        other = derived = None
        for n in ast.walk(ginit.node):
            if isinstance(n, ast.Assign) and isinstance(n.targets[0], ast.Attribute) and n.targets[0].attr == opt and canon(n.targets[0].value) == 'self':
                if isinstance(n.value, ast.Name) and n.value.id == opt:
                    ok = True
                elif _same_sequence(n.value, opt):
                    ok = True           # list(opt) / tuple(opt) / [x for x in opt]: the same entries in the same order
                elif any(isinstance(x, ast.Name) and x.id == opt for x in ast.walk(n.value)):
                    derived = n
                else:
                    other = n
        if other is not None:
            ctx.violation(rule, ginit, stmt_text(other), 'CodeGenerator does not store the %s option unchanged' % opt, other.lineno, clause='e', witness=True)
        elif ok and derived is None:
            ctx.holds(rule, ginit, 'self.%s = %s' % (opt, opt), 'stored unchanged', ginit.node.lineno, clause='e')
        elif derived is not None:
            ctx.undecided(rule, ginit, stmt_text(derived), 'the %s option is stored in another form: cannot see that nothing is lost' % opt, derived.lineno, clause='e')
        elif any(isinstance(x, ast.Name) and x.id == opt and isinstance(x.ctx, ast.Load) for x in ast.walk(ginit.node)):
            ctx.undecided(rule, ginit, 'self.%s' % opt, 'the %s option is kept under another name / in another form: cannot see that nothing is lost' % opt, ginit.node.lineno, clause='e')
        else:
            ctx.violation(rule, ginit, 'self.%s' % opt, 'CodeGenerator does not store the %s option unchanged' % opt, ginit.node.lineno, clause='e')
    # annotate: the source map is kept only when annotate is on, otherwise {}
    seen_on = seen_off = False
    bad = None
    for p_ in repo.walker(split_ifexp=True).paths(ginit.node, cls=cg):
        if p_.raises():
            continue
        gt_ = set(p_.guard_texts())
        st_ = [e_ for e_ in p_.effects if e_.kind == 'store_attr' and canon(e_.obj) == 'self' and e_.name == 'sourcecode_by_field_name']
        if not st_:
            bad = 'the source map attribute is not set on a path'
            continue
        v_ = st_[-1].value
        if 'annotate' in gt_:
            if canon(v_) == 'sourcecode_by_field_name':
                seen_on = True
            else:
                bad = 'with annotate on the attribute is %s' % canon(v_)[:60]
        elif 'not annotate' in gt_:
            if isinstance(v_, ast.Dict) and not v_.keys:
                seen_off = True
            else:
                bad = 'with annotate off the attribute is %s' % canon(v_)[:60]
        else:
            bad = 'a path does not consult annotate'
    use_time = None
    if bad == 'a path does not consult annotate' and not seen_on and not seen_off:
        # the decision taken where the comments are written: the option and the map are both kept
        # unchanged, and every generator path fills the comments hole from the map under
        # ``self.annotate`` and with nothing under ``not self.annotate``
        kept = {canon(n_.targets[0]): canon(n_.value) for n_ in ginit.node.body if isinstance(n_, ast.Assign) and len(n_.targets) == 1}
        if kept.get('self.annotate') == 'annotate' and kept.get('self.sourcecode_by_field_name') == 'sourcecode_by_field_name':
            from ..expr import subst
            use_time, n_holes = True, 0
            for t in repo.templates():
                v = t.values.get('comments') if 'comments' in t.holes else None
                if v is None:
                    continue
                n_holes += 1
                try:
                    ps = [p_ for p_ in repo.walker(max_paths=ctx.max_paths).paths(t.func.node, cls=t.func.cls) if not p_.raises()]
                except Undecided:
                    use_time = None
                    break
                for p_ in ps:
                    g_ = set(p_.guard_texts())
                    x = canon(subst(v, {k: e for k, e in p_.env.items() if isinstance(k, str)}))
                    if 'self.annotate' in g_ and 'self.sourcecode_by_field_name.get(' in x:
                        continue
                    if 'not self.annotate' in g_ and x in ("''", '""'):
                        continue
                    use_time = False if ('self.annotate' in g_ or 'not self.annotate' in g_ or 'self.sourcecode_by_field_name.get(' in x) else None
                    break
                if use_time is not True:
                    break
            if use_time and not n_holes:
                use_time = None
    if seen_on and seen_off and not bad:
        ctx.holds(rule, ginit, 'if annotate: keep the source map else {}', 'annotation only adds comments when switched on', ginit.node.lineno, clause='e')
    elif use_time is True:
        ctx.holds(rule, ginit, 'self.annotate = annotate; comments written only under self.annotate', 'annotation only adds comments when switched on (decided where the comments are written)', ginit.node.lineno, clause='e')
    elif use_time is None and bad == 'a path does not consult annotate' and not seen_on and not seen_off and any(canon(n_.targets[0]) == 'self.annotate' for n_ in ginit.node.body if isinstance(n_, ast.Assign)):
        ctx.undecided(rule, ginit, 'annotate', 'the option is kept for later: cannot follow where it is consulted', ginit.node.lineno, clause='e')
    else:
        ctx.violation(rule, ginit, 'annotate', 'the annotate option does not select between the source map and {} (%s)' % (bad or 'no such paths'), ginit.node.lineno, clause='e')
    # generate_code: produced and installed only under own flag
    gc = cg.methods.get('generate_code')
    from ..cache import CacheModel
    model = CacheModel(repo, max_paths=65536)
    seen = set()
    for p in model.paths:
        gt = set()
        for g, pol in p.guards:
            for c in conj(g if pol else negate(g)):
                gt.add(canon(c))
        for ev in model.events(p):
            if ev['ev'] == 'install':
                flag = 'self.generate_for_pack' if ev['attr'] == 'pack_impl' else 'self.generate_for_unpack'
                key = (ev['attr'], flag in gt)
                if key in seen:
                    continue
                seen.add(key)
                st = 'install %s under [%s]' % (ev['attr'], flag if flag in gt else 'no own flag')
                kind_ = 'unpack' if ev['attr'] == 'unpack_impl' else 'pack'
                other_ = [g_ for g_ in gt if not g_.startswith('not ') and 'generate_for' not in g_ and
                          (('unpack' in g_.lower()) if kind_ == 'unpack' else ('pack' in g_.lower().replace('unpack', '')))]
                if flag in gt:
                    ctx.holds(rule, gc, st, 'installed only when its own option is on', ev['eff'].lineno, clause='e')
                elif other_ and not any(isinstance(n_, ast.Assign) and canon(n_.targets[0]) == flag for n_ in ast.walk(ginit.node)):
                    # the option is kept in another form (a flag set, a mode object) and tested through it
                    ctx.undecided(rule, gc, 'install %s under [%s]' % (ev['attr'], other_[0][:60]), 'the option is kept in another form: cannot see that this test is the %s option' % kind_, ev['eff'].lineno, clause='e')
                else:
                    ctx.violation(rule, gc, st, '%s is installed without its own generate_for_* option being on' % ev['attr'], ev['eff'].lineno, clause='e')
    # vectorize selects run vs singleton
    ff = cg.methods.get('generate_code_for_fixed_fields')
    vec = [n for n in ast.walk(ff.node) if isinstance(n, ast.If) and canon(n.test) == 'self.vectorize']
    if vec and 'groupby' in unparse(vec[0].body[0]) and vec[0].orelse:
        ctx.holds(rule, ff, 'if self.vectorize: runs by endianness else one block per field', 'vectorize only changes the grouping', ff.node.lineno, clause='e')
    else:
        readers = [f_ for f_ in cg.methods.values() if f_.qual.split('.')[-1] != '__init__'
                   and any(isinstance(n, ast.Attribute) and n.attr == 'vectorize' and isinstance(n.ctx, ast.Load) for n in ast.walk(f_.node))]
        if readers:
            ctx.undecided(rule, readers[0], 'vectorize is consulted by %s' % ', '.join(f_.qual.split('.')[-1] for f_ in readers), 'not in the form "if self.vectorize: runs by endianness else one block per field": cannot see what the option selects', readers[0].node.lineno, clause='e')
        else:
            ctx.violation(rule, ff, 'vectorize', 'the vectorize option does not select between runs and single-field blocks', ff.node.lineno, clause='e')


def _is_position_name_field(fv):
    """[(i, name, field) for i, <entry> in enumerate(self.fields)] however the entry is taken apart"""
    if not (isinstance(fv, (ast.ListComp, ast.GeneratorExp)) and len(fv.generators) == 1):
        return False
    g = fv.generators[0]
    if g.ifs or canon(g.iter) != 'enumerate(self.fields)' or not (isinstance(g.target, ast.Tuple) and len(g.target.elts) == 2):
        return False
    env = {}

    def bind(t, v):
        if isinstance(t, ast.Name):
            env[t.id] = v
        elif isinstance(t, (ast.Tuple, ast.List)):
            for i, x in enumerate(t.elts):
                if isinstance(x, ast.Starred):
                    bind(x.value, ast.Subscript(value=v, slice=ast.Slice(lower=ast.Constant(value=i)), ctx=ast.Load()))
                else:
                    bind(x, ast.Subscript(value=v, slice=ast.Constant(value=i), ctx=ast.Load()))
    bind(g.target.elts[0], ast.Name(id='I', ctx=ast.Load()))
    bind(g.target.elts[1], ast.Name(id='ENTRY', ctx=ast.Load()))
    from ..expr import subst
    return canon(subst(fv.elt, env)) == '(I, ENTRY[0], ENTRY[1],)'


# ---------------------------------------------------------------- (f) comments

def check_comments(ctx):
    repo = ctx.repo
    rule = 'R2-annotate-comment-only'
    n = 0
    for t in repo.templates():
        if 'comments' not in t.holes:
            continue
        n += 1
        lines = [l for l in t.text.split('\n') if '%(comments)s' in l]
        v = t.values.get('comments')
        st = 'template %s@%d comments hole' % (t.func.qual.split('.')[-1], t.lineno)
        alone = all(l.strip() == '%(comments)s' for l in lines)
        src = canon(v) if v is not None else ''
        from_map = 'self.sourcecode_by_field_name.get(' in src
        unresolved = False
        if not from_map and v is not None:
            # resolve locals of the generator through its paths: every path must fill it from the map
            try:
                ps = [p_ for p_ in repo.walker(max_paths=ctx.max_paths).paths(t.func.node, cls=t.func.cls) if not p_.raises()]
                from ..expr import subst
                srcs = {canon(subst(v, {k: e for k, e in p_.env.items() if isinstance(k, str)})) for p_ in ps}
                if srcs:
                    # a path that writes no comment at all ('' in the hole) is a path without annotation
                    from_map = any('self.sourcecode_by_field_name.get(' in x for x in srcs) and all('self.sourcecode_by_field_name.get(' in x or x in ("''", '""') for x in srcs)
                    src = sorted(srcs)[-1]
                    unresolved = not from_map and any(x == canon(v) or '@phi' in x for x in srcs)
            except Undecided:
                unresolved = True
        if alone and from_map:
            ctx.holds(rule, t.func, st, 'stands alone on a line; filled from the source map only', t.lineno, clause='f')
        elif alone and unresolved:
            ctx.undecided(rule, t.func, st, 'cannot follow where the text of the annotation hole (%s) comes from' % src[:60], t.lineno, clause='f')
        else:
            ctx.violation(rule, t.func, st, 'the annotation hole is %s' % ('not alone on its line' if not alone else 'filled with something other than the source map (%s)' % src[:80]), t.lineno, clause='f', witness=not alone)
    # a template that reaches '%' through a helper which glues other text to it: that text becomes
    # part of the format string
    cg = repo.cls('CodeGenerator')
    for fi in cg.methods.values():
        for node in ast.walk(fi.node):
            if isinstance(node, ast.BinOp) and isinstance(node.op, ast.Mod) and isinstance(node.right, ast.Dict) and isinstance(node.left, ast.BinOp) and isinstance(node.left.op, ast.Add):
                ops_ = []

                def flat_(e):
                    if isinstance(e, ast.BinOp) and isinstance(e.op, ast.Add):
                        flat_(e.left); flat_(e.right)
                    else:
                        ops_.append(e)
                flat_(node.left)
                lits_ = [o for o in ops_ if isinstance(o, ast.Constant) and isinstance(o.value, str) and '%(' in o.value]
                other_ = [o for o in ops_ if not isinstance(o, ast.Constant)]
                if lits_ and other_:
                    n += 1
                    ctx.violation(rule, fi, 'template at line %d: (%s + <template>) %% {...}' % (node.lineno, canon(other_[0])[:50]), 'text computed at generation time (%s: the source lines of the fields) is glued to the template before it is formatted and so becomes part of the format string: a "%%" in a declaration comment makes the generated variant of the class fail to build while the field loop works' % canon(other_[0])[:50], node.lineno, clause='f', witness=True)
                continue
            if not (isinstance(node, ast.BinOp) and isinstance(node.op, ast.Mod) and isinstance(node.right, ast.Dict) and isinstance(node.left, ast.Call)):
                continue
            call = node.left
            tpl = [a for a in call.args if isinstance(a, ast.Constant) and isinstance(a.value, str) and '%(' in a.value]
            if not tpl or not (isinstance(call.func, ast.Attribute) and canon(call.func.value) == 'self' and call.func.attr in cg.methods):
                continue
            h = cg.methods[call.func.attr]
            params = [a.arg for a in h.node.args.args][1:]
            tparam = params[call.args.index(tpl[0])] if call.args.index(tpl[0]) < len(params) else None
            glued = []
            for r in ast.walk(h.node):
                if isinstance(r, ast.Return) and r.value is not None:
                    ops = []
                    def flat(e):
                        if isinstance(e, ast.BinOp) and isinstance(e.op, ast.Add):
                            flat(e.left); flat(e.right)
                        else:
                            ops.append(e)
                    flat(r.value)
                    if any(isinstance(o, ast.Name) and o.id == tparam for o in ops):
                        glued += [o for o in ops if not (isinstance(o, ast.Name) and o.id == tparam) and not isinstance(o, ast.Constant)]
            st = 'template at line %d: %s(..., <template>) %% {...}' % (node.lineno, h.qual)
            n += 1
            if glued:
                ctx.violation(rule, fi, st, 'the helper glues %s in front of / behind the template before it is formatted: that text (the source lines of the fields) becomes part of the format string, so a "%%" in a declaration comment makes the generated variant of the class fail to build while the field loop works' % canon(glued[0])[:60], node.lineno, clause='f', witness=True)
            else:
                ctx.undecided(rule, fi, st, 'the format string of a block template is produced by a helper', node.lineno, clause='f')
    pb = repo.cls('PacketClassBuilder')
    cf = pb.methods.get('collect_fields_sourcecode')
    if cf is None:
        raise Undecided('anchor collect_fields_sourcecode not found')
    w = repo.walker()
    stores = 0
    for p in w.paths(cf.node, cls=pb):
        for e in p.all_effects():
            if e.kind == 'store_sub' and canon(e.obj) == 'self.sourcecode_by_field_name':
                stores += 1
                v = e.value
                st = 'source map value %s' % canon(v)[:100]
                if isinstance(v, ast.Call) and call_name(v) == 'textwrap.indent' and len(v.args) >= 2 and isinstance(v.args[1], ast.Constant) and str(v.args[1].value).startswith('#'):
                    ctx.holds(rule, cf, st, "every non-blank line prefixed with '# '", e.lineno, clause='f')
                else:
                    ctx.violation(rule, cf, st, "annotation text is not produced by textwrap.indent(..., '# '): it can inject statements into the generated code", e.lineno, clause='f')
    ctx.unit('comment_holes', n)
    ctx.floor('comment holes', n, 4)
    ctx.floor('source map stores', stores, 1)


def check_primitive_siblings(ctx):
    """(d') the generic primitive strategies that the struct block replaces decode / encode the
    same way: strict struct codec of exactly raw[offset:offset+size] (C05 R1 on Int), and the
    struct_code of Data(n) is '<n>s'"""
    from . import c05
    repo = ctx.repo
    c05.check_codecs(ctx, repo.cls('Int'))
    # Round 9: ... and the field loop accepts every value the struct code of the run accepts
    ici = repo.cls('Int')
    if ici.methods.get('_compile') is not None:
        c05.check_generic_range_is_codec_range(ctx, ici, ici.methods['_compile'], rule='R2-generic-sibling-strict')
    dci = repo.cls('Data')
    dc = dci.methods.get('_compile')
    if dc is None:
        raise Undecided('anchor Data._compile not found')
    seen = False
    done = set()
    for p in repo.walker(max_paths=ctx.max_paths, inline_depth=ctx.depth, keep={'_compile_impl'}).paths(dc.node, cls=dci):
        if p.raises():
            continue
        for e in p.effects:
            if e.kind == 'store_attr' and canon(e.obj) == 'self' and e.name == 'struct_code':
                seen = True
                v = canon(e.raw if e.raw is not None else e.value)
                if v in done:
                    continue
                done.add(v)
                st = 'self.struct_code = %s' % v
                if v == "('%is' % self.byte_count)":
                    ctx.holds('R2-struct-block', dc, st, "a constant-size byte string is the struct code '<n>s'", e.lineno, clause='d')
                else:
                    ctx.violation('R2-struct-block', dc, st, "the struct code of Data(n) must be '%is' % byte_count", e.lineno, clause='d')
    if not seen:
        ctx.undecided('R2-struct-block', dc, 'Data._compile', 'no path stores struct_code', dc.node.lineno, clause='d')
    # ... and the generic reader of a constant-size byte string accepts exactly the inputs the
    # generated StructUnpack('<n>s', raw[offset:offset+n]) accepts: a slice of exactly n bytes
    from ..model import strategy_variants
    from .c04 import check_strategy_strict
    n_s = 0
    for ci, fi, s_, parked in strategy_variants(repo, 'unpack'):
        if ci.name != 'Data' or 'struct_code' not in (s_.get('defs') or {}):
            continue
        n_s += 1
        try:
            check_strategy_strict(ctx, ci, fi, s_, parked, rule='R2-generic-sibling-strict')
        except Undecided as e:
            ctx.undecided('R2-generic-sibling-strict', fi, fi.qual, str(e), fi.node.lineno, clause='d')
    if not n_s:
        ctx.undecided('R2-generic-sibling-strict', dc, 'Data._compile', 'no strategy of Data defines a struct code', dc.node.lineno, clause='d')


def check_driver_holes(ctx, rule='R2-skeleton'):
    """(a') the generated driver is the frame compared above plus two statement holes: the field
    blocks (inside the try) and the unrolled sync calls.  Any further hole puts statements into the
    generated driver that the generic driver does not have; when its generator emits a raise or a
    return, the generated driver ends on inputs where the generic one goes on"""
    repo = ctx.repo
    cg = repo.cls('CodeGenerator')
    for d in D.get_drivers(repo):
        if d.origin == 'generic' or d.template is None:
            continue
        known = 0
        for node in ast.walk(d.node):
            if not (isinstance(node, ast.Expr) and isinstance(node.value, ast.Name) and node.value.id.startswith('__HOLE_')):
                continue
            hole = node.value.id[len('__HOLE_'):-2]
            if hole in ('blocks_of_code', 'sync_descriptors_code'):
                known += 1
                continue
            val = d.template.values.get(hole)
            gens = []
            for x in (ast.walk(val) if val is not None else []):
                if isinstance(x, ast.Call) and isinstance(x.func, ast.Attribute) and canon(x.func.value) == 'self' and x.func.attr in cg.methods:
                    gens.append(cg.methods[x.func.attr])
                # the normal form names the value of an expanded helper _<helper>_value
                if isinstance(x, ast.Name) and x.id.startswith('_') and x.id.endswith('_value') and x.id[1:-6] in cg.methods:
                    gens.append(cg.methods[x.id[1:-6]])
            lits = [c.value for g in gens for c in ast.walk(g.node) if isinstance(c, ast.Constant) and isinstance(c.value, str)]
            if val is not None:
                lits += [c.value for c in ast.walk(val) if isinstance(c, ast.Constant) and isinstance(c.value, str)]
            ends = [l for l in lits if any(ln.strip().startswith(('raise ', 'return ', 'return', 'assert ')) for ln in l.split('\n'))]
            st = '%s: statement hole %%(%s)s filled by %s' % (d.label, hole, ', '.join(g.qual for g in gens) or (canon(val)[:60] if val is not None else None))
            if ends:
                ctx.violation(rule, d.where, st, 'the generated driver gets statements that end it (%s) where the generic driver has none: some inputs fail (or return) in the generated code only' % ends[0].strip().split('\n')[-1].strip()[:60], d.node.lineno, clause='a', witness=True)
            else:
                ctx.undecided(rule, d.where, st, 'statements of this hole have no counterpart in the generic driver and are not compared with it', d.node.lineno, clause='a')
        if known >= 2:
            ctx.holds(rule, d.where, '%s: statement holes = field blocks + sync calls' % d.label, 'nothing else is spliced into the driver frame', d.node.lineno, clause='a')


def check_hook_siblings(ctx, rule='R2-driver-symmetry'):
    """(b') the descriptor sync hooks stand on the same side of the try in the generic and in the
    generated driver of a kind: otherwise a failing hook is a PacketError with one of them and a
    bare exception with the other"""
    repo = ctx.repo
    from .. import drivers as D
    by = {}
    for d in D.get_drivers(repo):
        want = 'get_sync_before_pack_methods' if d.kind == 'pack' else 'get_sync_after_unpack_methods'
        where = set()
        for pos, s_, g in D.sync_sites(d):
            if g == want:
                where.add('inside' if pos in ('try-before-fields', 'try-after-fields') else 'outside')
        by.setdefault(d.kind, {})[d.origin] = (where, d)
    for kind, m in sorted(by.items()):
        if len(m) != 2:
            continue
        (wa, da), (wb, db) = m['generic'], m[[o for o in m if o != 'generic'][0]]
        st = '%s drivers: sync hooks %s the try (generic), %s (generated)' % (kind, '/'.join(sorted(wa)) or 'absent from', '/'.join(sorted(wb)) or 'absent from')
        if wa == wb:
            ctx.holds(rule, da.where, st, 'a failing hook surfaces the same way in both', da.node.lineno, clause='b')
        else:
            ctx.violation(rule, da.where, st, 'a hook that raises is reported as PacketError by one driver and escapes as the original exception from the other: the two no longer fail alike on the same input', da.node.lineno, clause='b', witness=True)


VALUE_CODES = set('cbB?hHiIlLqQnNefdspP')


def check_struct_code_owners(ctx, rule='R2-struct-block'):
    """(d'') the struct block stands in for the member's own pack / unpack, so every class that
    gives its instances a struct code is one whose methods were compared with it above (Int,
    Data); and a code is a value code -- a pad code 'x' reads nothing and writes zero bytes where
    the member's own pack leaves a hole"""
    repo = ctx.repo
    n = 0
    for ci in repo.classes.values():
        for fi in ci.methods.values():
            for node in ast.walk(fi.node):
                if not isinstance(node, ast.Assign):
                    continue
                for t in node.targets:
                    if not (isinstance(t, ast.Attribute) and t.attr == 'struct_code'):
                        continue
                    n += 1
                    v = node.value
                    st = '%s: %s.struct_code = %s' % (fi.qual, canon(t.value), canon(v)[:60])
                    if isinstance(v, ast.Constant) and v.value is None:
                        ctx.holds(rule, fi, st, 'no struct code: the member keeps its own methods', node.lineno, clause='d')
                        continue
                    lits = [x.value for x in ast.walk(v) if isinstance(x, ast.Constant) and isinstance(x.value, str)]
                    pads = [l for l in lits if l.rstrip().endswith('x') or 'x' in l.replace('%x', '')]
                    if ci.name in ('Int', 'Data') and canon(t.value) == 'self':
                        if pads:
                            ctx.violation(rule, fi, st, "a pad code: the struct call writes zero bytes and yields no value for this member", node.lineno, clause='d', witness=True)
                        else:
                            ctx.holds(rule, fi, st, 'a class whose own codec is compared with the struct block (C05 / Data siblings)', node.lineno, clause='d')
                    elif pads:
                        ctx.violation(rule, fi, st, "class %s joins the struct blocks with a pad code: the generated pack writes zero bytes there (its own pack leaves the positions to the fill byte or to other fields) and the generated tuple has no value for it" % ci.name, node.lineno, clause='d', witness=True)
                    else:
                        ctx.undecided(rule, fi, st, 'class %s gives itself a struct code: no rule compares its own pack / unpack with the struct call that replaces them' % ci.name, node.lineno, clause='d')
    ctx.floor('struct_code stores', n, 4)


def check(ctx):
    check_skeletons(ctx)
    check_partition(ctx)
    check_struct_block(ctx)
    check_pending_run_is_flushed_first(ctx)
    check_primitive_siblings(ctx)
    check_struct_code_owners(ctx)
    check_hook_siblings(ctx)
    check_driver_holes(ctx)
    # the unrolled sync calls of the generated drivers run every hook of the phase, each once,
    # indexed as the list get_sync_*_methods() returns them (C17-c): the generic loop does
    from .c17 import check_generated_sync
    check_generated_sync(ctx)
    # Round 9.  the generated block writes pkt.<name it is listed under>, the field loop writes
    # self.field_name: the same attribute (C17 b'), else one of them goes through a descriptor
    from .c17 import check_described_names
    check_described_names(ctx)
    # what the class runs is the text generated for it: a module taken from the cache is installed
    # only after its cookie was compared (C15 V); otherwise the class silently runs the drivers of
    # another declaration while its generic twin is right
    from ..cache import CacheModel
    from .c16 import check_protocol
    check_protocol(ctx, CacheModel(ctx.repo, max_paths=max(ctx.max_paths, 65536)), 'V')
    from .c04 import check_templates_decode
    check_templates_decode(ctx, 'R2-generated-decode-strict')
    # append / extend go through insert (same collision checks whatever the fragment granularity)
    from .c11 import check as c11_check
    c11_check(ctx, parts=('append',))
    check_options(ctx)
    check_comments(ctx)
    ctx.floor('drivers analysed', ctx.units.get('drivers', 0), 4)
    ctx.floor('groupby sites', ctx.units.get('groupby_sites', 0), 3)
    ctx.floor('templates with parsed AST', len([t for t in ctx.repo.templates() if t.tree is not None]), 6)
    ctx.trust(*ASSUMPTIONS)
