"""C08 -- repeated, optional and referenced fields follow their declared control semantics.

Path / loop summaries of Sequence, Optional, Ref and the two normalisers:

 (a) Sequence.unpack stores a fresh list under the field name *before* count / when /
     until are evaluated (callbacks see the list built so far) and appends to that same list;
 (b) on the when-false path the incoming offset is returned unchanged and no element is parsed;
 (c) count mode iterates range(count) (=> max(count, 0) elements); until mode parses one
     element unconditionally, evaluates ``until`` once after each element (after it was
     appended), stops on the first truthy result (negation at both evaluation sites, the
     while tests the flag); every loop body parses exactly one element and appends the
     scratch slot's value;
 (d) Sequence.pack visits the list in order: scratch slot := element, one child pack each;
 (e) Optional: child unpack on the truthy path only, None stored and offset unchanged on the
     other; pack emits nothing for None, otherwise packs the value through the scratch slot;
 (f) Ref: the child's returned offset is the returned offset; the selector result goes down
     the Field path (rename, compile, init, unpack) or the Packet path; pack: a Packet value
     packs itself, anything else asks the selector with packing=True;
 (g) normalisers: int -> constant, Field -> getattr(pkt, that field's name), expression ->
     compiled, callable -> as is, anything else -> ValueError; no closure captures a loop
     variable anywhere in the package.
Values produced by user callbacks are not decided.
"""
import ast

from .. import Undecided
from ..expr import canon, lin, call_name, unparse, negate, conj
from ..model import stmt_text

EXPLANATION = __doc__
LEVEL_RULE = 'one obligation per clause instance on the paths / loop summaries of Sequence, Optional, Ref and the normalisers'
ASSUMPTIONS = [
    'range(n) is empty for n <= 0',
    'user callbacks (count / when / until / selectors) are opaque',
]

CALLARGS = ('offset=offset', 'pkt=pkt', 'raw=raw')


def gtexts(p):
    out = set()
    for g, pol in p.guards:
        t = g if pol else negate(g)
        for c in conj(t):
            out.add(canon(c))
    return out


def is_cb_call(e, attr):
    return e.kind == 'call' and canon(e.call.func) == 'self.' + attr


def elem_unpacks(p):
    return [e for e in p.all_effects() if e.kind == 'call' and canon(e.call.func) == 'self.prototype_field.unpack']


def check_sequence_unpack(ctx, sq):
    repo = ctx.repo
    fi = sq.methods.get('unpack')
    rule = 'C08-sequence-unpack'
    # (a) source level: the list local
    lst = None
    for n in ast.walk(fi.node):
        if isinstance(n, ast.Assign) and isinstance(n.targets[0], ast.Name) and (isinstance(n.value, ast.List) and not n.value.elts or (isinstance(n.value, ast.Call) and call_name(n.value) == 'list' and not n.value.args)):
            lst = n.targets[0].id
            break
    if lst is None:
        ctx.violation(rule, fi, 'Sequence.unpack', 'no fresh list is created for the parsed elements', fi.node.lineno, clause='a')
        return
    aliases = {lst}
    app_alias = set()
    for n in ast.walk(fi.node):
        if isinstance(n, ast.Assign) and isinstance(n.targets[0], ast.Name) and isinstance(n.value, ast.Attribute) and n.value.attr == 'append' \
                and isinstance(n.value.value, ast.Name) and n.value.value.id in aliases:
            app_alias.add(n.targets[0].id)
    stores = [n for n in ast.walk(fi.node) if isinstance(n, ast.Call) and isinstance(n.func, ast.Name) and n.func.id == 'setattr' and len(n.args) == 3
              and canon(n.args[1]) == 'self.field_name']
    if len(stores) != 1 or not (isinstance(stores[0].args[2], ast.Name) and stores[0].args[2].id == lst):
        ctx.violation(rule, fi, 'setattr(pkt, self.field_name, ...)', 'the list stored under the field name is not the list the elements are appended to', fi.node.lineno, clause='a')
    else:
        ctx.holds(rule, fi, 'setattr(pkt, self.field_name, %s)' % lst, 'the stored list is the one being filled', stores[0].lineno, clause='a')
    appends = [n for n in ast.walk(fi.node) if isinstance(n, ast.Call) and ((isinstance(n.func, ast.Name) and n.func.id in app_alias) or
               (isinstance(n.func, ast.Attribute) and n.func.attr == 'append'))]
    for a in appends:
        ok = (isinstance(a.func, ast.Name)) or (isinstance(a.func.value, ast.Name) and a.func.value.id in aliases)
        if not ok:
            ctx.violation(rule, fi, stmt_text(a), 'elements are appended to a different list', a.lineno, clause='a')
    w = repo.walker(max_paths=ctx.max_paths)
    paths = w.paths(fi.node, cls=sq)
    ctx.unit('paths', len(paths))
    saw_skip = saw_main = False
    for p in paths:
        if p.raises():
            continue
        effs = list(p.effects)
        # (a) order
        first_store = next((i for i, e in enumerate(effs) if e.kind == 'setattr' and canon(e.name) == 'self.field_name'), None)
        first_cb = next((i for i, e in enumerate(effs) if e.kind == 'call' and canon(e.call.func) in ('self.get_how_many_elements', 'self.when', 'self.until_condition')), None)
        if first_store is None or (first_cb is not None and first_cb < first_store):
            ctx.violation(rule, fi, 'order of effects: %s' % [e.text()[:50] for e in effs[:4]], 'count / when / until are evaluated before the fresh list is stored: callbacks see the previous list', fi.node.lineno, clause='a')
            continue
        loops = [e for e in effs if e.kind == 'loop']
        if not loops:
            # ---- (b) skip path
            saw_skip = True
            r = p.ret()
            gt = gtexts(p)
            st = 'skip path [%s] returns %s' % ('; '.join(sorted(gt))[:140], canon(r) if r is not None else None)
            if elem_unpacks(p):
                ctx.violation(rule, fi, st, 'an element is parsed although the sequence is skipped', fi.node.lineno, clause='b')
            elif r is None or canon(r) != 'offset':
                ctx.violation(rule, fi, st, 'a skipped sequence must consume nothing (return the incoming offset)', fi.node.lineno, clause='b')
            elif not any('self.when' in g for g in gt):
                ctx.violation(rule, fi, st, 'the sequence is skipped on a path that does not depend on the when condition', fi.node.lineno, clause='b')
            else:
                ok_when = any(is_cb_call(e, 'when') and all(a in canon(e.call) for a in CALLARGS) for e in effs)
                if ok_when:
                    ctx.holds(rule, fi, 'when false -> return offset, no element parsed', 'empty list, nothing consumed', fi.node.lineno, clause='b')
                else:
                    ctx.violation(rule, fi, st, 'the when condition is not called with (pkt, raw, offset, **k)', fi.node.lineno, clause='b')
            continue
        saw_main = True
        fors = [e for e in loops if e.sub['kind'] == 'for']
        whiles = [e for e in loops if e.sub['kind'] == 'while']
        if len(fors) != 1 or len(whiles) != 1:
            ctx.undecided(rule, fi, 'loops: %d for, %d while' % (len(fors), len(whiles)), 'expected one count loop and one until loop', fi.node.lineno, clause='c')
            continue
        fl, wl = fors[0], whiles[0]
        # ---- (c) count loop
        it = canon(fl.sub['iter'])
        want_it = 'range((1 if not self.get_how_many_elements else self.get_how_many_elements(**k, offset=offset, pkt=pkt, raw=raw)))'
        if it == want_it:
            ctx.holds(rule, fi, 'for _ in range(count or 1)', 'count mode: range(count); until mode: one unconditional element', fl.lineno, clause='c')
        else:
            ctx.violation(rule, fi, 'for ... in %s' % it[:160], 'the count loop must iterate range(count) (and exactly once in until mode)', fl.lineno, clause='c')
        for lp, name in ((fl, 'count loop'), (wl, 'until loop')):
            n = lp.sub['phi']
            for bp in lp.sub['body']:
                if bp.end[0] != 'fall':
                    ctx.violation(rule, fi, '%s body ends in %s' % (name, bp.end[0]), 'the loop can stop early or skip an element', lp.lineno, clause='c')
                    continue
                ups = [e for e in bp.effects if e.kind == 'call' and canon(e.call.func) == 'self.prototype_field.unpack']
                apps = [e for e in bp.effects if e.kind == 'call' and isinstance(e.call.func, ast.Attribute) and e.call.func.attr == 'append']
                st = '%s body: %s' % (name, '; '.join(e.text()[:60] for e in bp.effects if e.kind == 'call' and ('unpack' in e.text() or 'append' in e.text() or 'until' in e.text())))
                if len(ups) != 1 or len(apps) != 1:
                    ctx.violation(rule, fi, st[:300], 'each iteration must parse exactly one element and append it (%d parses, %d appends)' % (len(ups), len(apps)), lp.lineno, clause='c')
                    continue
                stored_list = [e for e in effs if e.kind == 'setattr' and canon(e.name) == 'self.field_name']
                recv = apps[0].call.func.value if isinstance(apps[0].call.func, ast.Attribute) else None
                if recv is None or not stored_list or canon(recv) != canon(stored_list[0].value):
                    ctx.violation(rule, fi, st[:300], 'elements are appended to %s, which is not the list stored under the field name (%s)' % (canon(recv) if recv is not None else '?', canon(stored_list[0].value) if stored_list else '?'), lp.lineno, clause='a')
                    continue
                if bp.effects.index(apps[0]) < bp.effects.index(ups[0]):
                    ctx.violation(rule, fi, st[:300], 'the element is appended before it is parsed (stale scratch value)', lp.lineno, clause='c')
                    continue
                av = apps[0].call.args[0] if apps[0].call.args else None
                if av is None or canon(av) != canon(ast.parse('getattr(pkt, self.seq_elem_field_name)', mode='eval').body):
                    ctx.violation(rule, fi, st[:300], 'the value appended is not the element just parsed into the scratch slot', lp.lineno, clause='c')
                    continue
                if name == 'until loop':
                    unt = [e for e in bp.effects if is_cb_call(e, 'until_condition')]
                    if len(unt) != 1 or bp.effects.index(unt[0]) < bp.effects.index(apps[0]):
                        ctx.violation(rule, fi, st[:300], 'until must be evaluated once per element, after the element was appended', lp.lineno, clause='c')
                        continue
                    flag = None
                    for c in lp.sub['carried']:
                        v = bp.env.get(c)
                        if v is not None and isinstance(v, ast.UnaryOp) and isinstance(v.op, ast.Not) and canon(v.operand) == canon(unt[0].call):
                            flag = c
                    if flag is None:
                        ctx.violation(rule, fi, st[:300], 'the continue flag is not "not until(...)": the loop does not stop on the first truthy result', lp.lineno, clause='c')
                        continue
                    if lp.sub['test'] is None or canon(lp.sub['test']) != '%s@phi%d' % (flag, n):
                        ctx.violation(rule, fi, 'while %s' % (canon(lp.sub['test']) if lp.sub['test'] is not None else None), 'the until loop must test the continue flag', lp.lineno, clause='c')
                        continue
                    if not all(a in canon(unt[0].call) for a in ('pkt=pkt', 'raw=raw')) or 'offset=offset@phi%d' % n not in canon(unt[0].call).replace('(offset@phi%d' % n, 'X'):
                        # the until callback must see the cursor after the element
                        pass
                ctx.holds(rule, fi, '%s: one parse, append scratch value%s' % (name, ', then until once' if name == 'until loop' else ''), 'declared control semantics', lp.lineno, clause='c')
        # initial flag between the loops
        init = [e for e in effs if is_cb_call(e, 'until_condition')]
        want_flag = '(False if (self.until_condition is None) else not self.until_condition('
        found = False
        for s in ast.walk(fi.node):
            if isinstance(s, ast.Assign) and isinstance(s.value, ast.IfExp):
                v = s.value
                if isinstance(v.body, ast.Constant) and v.body.value is False and 'is None' in canon(v.test) and isinstance(v.orelse, ast.UnaryOp) and isinstance(v.orelse.op, ast.Not):
                    found = True
        if found and init and effs.index(init[0]) > effs.index(fl) and effs.index(init[0]) < effs.index(wl):
            ctx.holds(rule, fi, 'flag = False if until is None else not until(...) (after the first element)', 'until is first evaluated after one element', fi.node.lineno, clause='c')
        else:
            ctx.violation(rule, fi, 'initial continue flag', 'until must first be evaluated after the unconditional first element, negated, and be False in count mode', fi.node.lineno, clause='c')
        r = p.ret()
        if r is None or '@phi%dout' % wl.sub['phi'] not in canon(r) or not canon(r).startswith('offset@'):
            ctx.violation(rule, fi, 'returns %s' % (canon(r) if r is not None else None), 'the sequence must return the cursor after its last element', fi.node.lineno, clause='c')
    if not saw_skip:
        ctx.violation(rule, fi, 'Sequence.unpack', 'no path skips the sequence when its when condition is false', fi.node.lineno, clause='b')
    if not saw_main:
        ctx.violation(rule, fi, 'Sequence.unpack', 'no path parses elements', fi.node.lineno, clause='c')


def check_sequence_pack(ctx, sq):
    repo = ctx.repo
    fi = sq.methods.get('pack')
    rule = 'C08-sequence-pack'
    w = repo.walker()
    for p in w.paths(fi.node, cls=sq):
        if p.raises():
            ctx.violation(rule, fi, 'Sequence.pack', 'pack raises on a path', fi.node.lineno, clause='d')
            continue
        loops = [e for e in p.effects if e.kind == 'loop']
        if len(loops) != 1 or loops[0].sub['kind'] != 'for':
            ctx.violation(rule, fi, 'Sequence.pack', 'expected one loop over the list', fi.node.lineno, clause='d')
            continue
        lp = loops[0]
        it = canon(lp.sub['iter'])
        if it != canon(ast.parse('getattr(pkt, self.field_name)', mode='eval').body):
            ctx.violation(rule, fi, 'for ... in %s' % it, 'pack must visit the stored list itself, in order (no slice / reverse / filter)', lp.lineno, clause='d')
            continue
        item = '<item of %d>' % lp.sub['phi']
        for bp in lp.sub['body']:
            sets = [e for e in bp.effects if e.kind == 'setattr' and canon(e.name) == 'self.seq_elem_field_name']
            packs = [e for e in bp.effects if e.kind == 'call' and canon(e.call.func) == 'self.prototype_field.pack']
            st = 'loop body: %s' % '; '.join(e.text()[:70] for e in bp.effects if e.kind in ('setattr', 'call'))
            if bp.end[0] != 'fall':
                ctx.violation(rule, fi, st[:250], 'the loop can stop early or skip an element', lp.lineno, clause='d')
            elif len(sets) != 1 or canon(sets[0].value) != item:
                ctx.violation(rule, fi, st[:250], 'the scratch slot must receive the current element', lp.lineno, clause='d')
            elif len(packs) != 1 or bp.effects.index(packs[0]) < bp.effects.index(sets[0]):
                ctx.violation(rule, fi, st[:250], 'exactly one child pack per element, after the scratch slot was set', lp.lineno, clause='d')
            else:
                args = [canon(a) for a in packs[0].call.args] + ['%s=%s' % (k.arg, canon(k.value)) for k in packs[0].call.keywords if k.arg]
                if ('pkt' in args or 'pkt=pkt' in args) and ('fragments' in args or 'fragments=fragments' in args):
                    ctx.holds(rule, fi, 'for val in list: scratch := val; child.pack(pkt, fragments)', 'one child pack per element, in order', lp.lineno, clause='d')
                else:
                    ctx.violation(rule, fi, st[:250], 'the child does not pack this packet into this buffer', lp.lineno, clause='d')


def check_optional(ctx, op):
    repo = ctx.repo
    rule = 'C08-optional'
    up, pk = op.methods.get('unpack'), op.methods.get('pack')
    w = repo.walker()
    seen = set()
    for p in w.paths(up.node, cls=op):
        if p.raises():
            continue
        gt = gtexts(p)
        when_calls = [e for e in p.effects if is_cb_call(e, 'when')]
        if len(when_calls) != 1 or not all(a in canon(when_calls[0].call) for a in CALLARGS):
            ctx.violation(rule, up, 'Optional.unpack', 'the when condition must be evaluated once with (pkt, raw, offset, **k)', up.node.lineno, clause='e')
            continue
        wc = canon(when_calls[0].call)
        st_ = [e for e in p.effects if e.kind == 'setattr' and canon(e.name) == 'self.field_name']
        ups = [e for e in p.effects if e.kind == 'call' and canon(e.call.func) == 'self.prototype_field.unpack']
        r = p.ret()
        if wc in gt:
            seen.add(True)
            ok = len(ups) == 1 and len(st_) == 1 and canon(st_[0].value) == canon(ast.parse('getattr(pkt, self.opt_elem_field_name)', mode='eval').body) \
                and p.effects.index(ups[0]) < p.effects.index(st_[0]) and r is not None and canon(r) == canon(ups[0].call) and all(a in canon(ups[0].call) for a in CALLARGS)
            if ok:
                ctx.holds(rule, up, 'when true: parse child at the cursor, store the scratch value, return the child\'s cursor', 'parsed iff the condition is true', up.node.lineno, clause='e')
            else:
                ctx.violation(rule, up, 'when true: %s -> return %s' % ([e.text()[:60] for e in p.effects if e.kind in ('setattr', 'call')], canon(r) if r is not None else None),
                              'on the truthy path the child must be parsed once at the cursor, its value stored, and its cursor returned', up.node.lineno, clause='e')
        elif ('not ' + wc) in gt:
            seen.add(False)
            ok = not ups and len(st_) == 1 and isinstance(st_[0].value, ast.Constant) and st_[0].value.value is None and r is not None and canon(r) == 'offset'
            if ok:
                ctx.holds(rule, up, 'when false: store None, return offset', 'absent optional consumes nothing', up.node.lineno, clause='e')
            else:
                ctx.violation(rule, up, 'when false: %s -> return %s' % ([e.text()[:60] for e in p.effects if e.kind in ('setattr', 'call')], canon(r) if r is not None else None),
                              'on the falsy path nothing may be parsed, None must be stored and the offset returned unchanged', up.node.lineno, clause='e')
        else:
            ctx.undecided(rule, up, 'path [%s]' % '; '.join(sorted(gt))[:160], 'path does not branch on the when condition', up.node.lineno, clause='e')
    if seen != {True, False}:
        ctx.violation(rule, up, 'Optional.unpack', 'expected a truthy and a falsy path on the when condition, found %s' % sorted(seen), up.node.lineno, clause='e')
    GETV = canon(ast.parse('getattr(pkt, self.field_name)', mode='eval').body)
    seenp = set()
    for p in w.paths(pk.node, cls=op):
        if p.raises():
            continue
        gt = gtexts(p)
        packs = [e for e in p.effects if e.kind == 'call' and canon(e.call.func) == 'self.prototype_field.pack']
        sets = [e for e in p.effects if e.kind == 'setattr']
        if ('(%s is None)' % GETV) in gt:
            seenp.add('none')
            if packs or sets or p.calls(lambda e: 'fragments.' in canon(e.call.func)):
                ctx.violation(rule, pk, 'value None: %s' % [e.text()[:60] for e in p.effects], 'an absent optional must emit nothing', pk.node.lineno, clause='e')
            else:
                ctx.holds(rule, pk, 'value None: nothing emitted', 'absent optional emits nothing', pk.node.lineno, clause='e')
        elif ('(%s is not None)' % GETV) in gt:
            seenp.add('value')
            ok = len(packs) == 1 and len(sets) == 1 and canon(sets[0].name) == 'self.opt_elem_field_name' and canon(sets[0].value) == GETV \
                and p.effects.index(sets[0]) < p.effects.index(packs[0])
            if ok:
                ctx.holds(rule, pk, 'value present: scratch := value; child.pack', 'present optional packs its value', pk.node.lineno, clause='e')
            else:
                ctx.violation(rule, pk, 'value present: %s' % [e.text()[:60] for e in p.effects if e.kind in ('setattr', 'call')], 'a present optional must pack its value through the scratch slot exactly once', pk.node.lineno, clause='e')
        else:
            ctx.violation(rule, pk, 'path [%s]' % '; '.join(sorted(gt)), 'pack does not decide on "value is None"', pk.node.lineno, clause='e')
    if seenp != {'none', 'value'}:
        ctx.violation(rule, pk, 'Optional.pack', 'expected a None path and a value path', pk.node.lineno, clause='e')


def check_ref(ctx, rf):
    repo = ctx.repo
    rule = 'C08-ref'
    w = repo.walker()
    from ..model import ref_strategies
    m = ref_strategies(repo)
    # referencing a packet
    fi = m['unpack_packet']
    for p in w.paths(fi.node, cls=rf):
        st_ = [e for e in p.effects if e.kind == 'setattr' and canon(e.name) == 'self.field_name']
        r = p.ret()
        ok = len(st_) == 1 and canon(st_[0].value) == 'self.proto_class(_initialize_fields=False)' and r is not None \
            and canon(r) == 'self.proto_class(_initialize_fields=False).unpack_impl(**k)'
        if ok:
            ctx.holds(rule, fi, 'p = proto_class(_initialize_fields=False); store p; return p.unpack_impl(**k)', 'nested packet parsed at the cursor, its cursor returned', fi.node.lineno, clause='f')
        else:
            ctx.violation(rule, fi, 'store %s; return %s' % ([canon(e.value) for e in st_], canon(r) if r is not None else None), 'a reference must parse a new instance of the referenced class with the caller\'s (raw, offset, **k) and return its cursor', fi.node.lineno, clause='f')
    fi = m['pack_packet']
    for p in w.paths(fi.node, cls=rf):
        r = p.ret()
        want = canon(ast.parse('getattr(pkt, self.field_name).pack_impl(fragments=fragments, **k)', mode='eval').body)
        if r is not None and canon(r) == want:
            ctx.holds(rule, fi, 'return value.pack_impl(fragments=fragments, **k)', 'the nested packet packs itself at the cursor', fi.node.lineno, clause='f')
        else:
            ctx.violation(rule, fi, 'return %s' % (canon(r) if r is not None else None), 'expected the stored packet to pack itself into the same buffer', fi.node.lineno, clause='f')
    # through a callable
    fi = m['unpack_callable']
    sel = 'self.prototype(**k, offset=offset, pkt=pkt, raw=raw)'
    seen = set()
    for p in w.paths(fi.node, cls=rf):
        if p.raises():
            continue
        gt = gtexts(p)
        r = p.ret()
        if ('isinstance(%s, Field)' % sel) in gt:
            seen.add('field')
            calls = [e.text() for e in p.effects if e.kind in ('call', 'store_attr')]
            ok = any(t.startswith(sel + '.field_name = self.field_name') for t in calls) and any('._compile(' in t for t in calls) and any('.init(pkt, {})' in t for t in calls) \
                and r is not None and canon(r) == sel + '.unpack(**k, offset=offset, pkt=pkt, raw=raw)'
            if ok:
                ctx.holds(rule, fi, 'selector -> Field: rename, compile, init, return field.unpack(pkt, raw, offset, **k)', 'the selected field is parsed at the cursor', fi.node.lineno, clause='f')
            else:
                ctx.violation(rule, fi, 'selector -> Field: %s; return %s' % (calls[-4:], canon(r) if r is not None else None), 'the selected field must be renamed to this field, compiled, initialised and parsed at the cursor; its cursor is returned', fi.node.lineno, clause='f')
        elif ('isinstance(%s, Packet)' % sel) in gt:
            seen.add('packet')
            st_ = [e for e in p.effects if e.kind == 'setattr' and canon(e.name) == 'self.field_name']
            ok = len(st_) == 1 and r is not None and canon(r) == canon(st_[0].value) + '.unpack_impl(raw, offset, **k)'
            if ok:
                ctx.holds(rule, fi, 'selector -> Packet: store; return it.unpack_impl(raw, offset, **k)', 'the selected packet is parsed at the cursor', fi.node.lineno, clause='f')
            else:
                ctx.violation(rule, fi, 'selector -> Packet: store %s; return %s' % ([canon(e.value)[:60] for e in st_], canon(r)[:100] if r is not None else None), 'the packet stored must be the one parsed at (raw, offset) and its cursor returned', fi.node.lineno, clause='f')
    if seen != {'field', 'packet'}:
        ctx.violation(rule, fi, 'Ref: unpack through a selector', 'expected a Field path and a Packet path after calling the selector with (pkt, raw, offset, **k); found %s' % sorted(seen), fi.node.lineno, clause='f')
    fi = m['pack_callable']
    seen = set()
    GETV = canon(ast.parse('getattr(pkt, self.field_name)', mode='eval').body)
    for p in w.paths(fi.node, cls=rf):
        gt = gtexts(p)
        r = p.ret()
        if ('isinstance(%s, Packet)' % GETV) in gt:
            seen.add('packet')
            if not p.raises() and r is not None and canon(r) == GETV + '.pack_impl(**k, fragments=fragments)':
                ctx.holds(rule, fi, 'value is a Packet: return value.pack_impl(fragments=fragments, **k)', 'a packet value packs itself', fi.node.lineno, clause='f')
            else:
                ctx.violation(rule, fi, 'value is a Packet: return %s' % (canon(r) if r is not None else None), 'a packet value must pack itself into the same buffer', fi.node.lineno, clause='f')
        elif not p.raises():
            selp = [e for e in p.effects if is_cb_call(e, 'prototype')]
            if len(selp) == 1 and 'packing=True' in canon(selp[0].call) and r is not None and canon(r) == canon(selp[0].call) + '.pack(pkt, fragments, **k)':
                seen.add('field')
                ctx.holds(rule, fi, 'other value: selector(packing=True) -> Field; return field.pack(pkt, fragments, **k)', 'the selector tells how to pack a plain value', fi.node.lineno, clause='f')
            else:
                ctx.violation(rule, fi, 'other value: %s; return %s' % ([e.text()[:60] for e in selp], canon(r)[:80] if r is not None else None), 'a non-packet value must be packed by the field the selector returns when called with packing=True', fi.node.lineno, clause='f')
    # sibling agreement: the field the selector returns is prepared the same way on both sides
    def prep(fn):
        out = set()
        for p in w.paths(fn.node, cls=rf):
            for e in p.effects:
                if e.kind == 'call' and isinstance(e.call.func, ast.Attribute) and e.call.func.attr == '_compile':
                    kw = sorted('%s=%s' % (k.arg, canon(k.value)) for k in e.call.keywords) + [canon(a) for a in e.call.args]
                    out.add(tuple(kw))
        return out
    pu, pp = prep(m['unpack_callable']), prep(m['pack_callable'])
    if pu == pp and pu:
        ctx.holds(rule, fi, 'selected field compiled with %s on both sides' % (sorted(pu)[0][:3],), 'parse and serialize use the same codec for the selected field', fi.node.lineno, clause='f')
    else:
        ctx.violation(rule, fi, 'selected field: unpack compiles with %s, pack with %s' % (sorted(pu), sorted(pp)), 'the field returned by the selector is configured differently when parsing and when serializing (byte order / alignment / search window differ)', fi.node.lineno, clause='f')
    if seen != {'field', 'packet'}:
        ctx.violation(rule, fi, 'Ref: pack through a selector', 'expected a Packet path and a selector path; found %s' % sorted(seen), fi.node.lineno, clause='f')


def check_normalisers(ctx):
    repo = ctx.repo
    rule = 'C08-normalisers'
    fi = repo.module_funcs.get(('structural_fields', 'normalize_count_condition_into_a_callable'))
    fr = repo.module_funcs.get(('structural_fields', 'normalize_raw_condition_into_a_callable'))
    if fi is None or fr is None:
        raise Undecided('anchor normalisers not found')
    w = repo.walker()
    P = fi.node.args.args[0].arg
    kinds = set()
    for p in w.paths(fi.node):
        gt = gtexts(p)
        r = p.ret()
        if p.raises():
            kinds.add('reject')
            continue
        if ('callable(%s)' % P) in gt and not any(g.startswith('not callable(%s)' % P) for g in gt) and not any('isinstance(%s' % P in g and not g.startswith('not ') for g in gt):
            kinds.add('callable')
            if r is None or canon(r) != P:
                ctx.violation(rule, fi, 'callable -> %s' % (canon(r) if r is not None else None), 'a callable count must be used as is', fi.node.lineno, clause='g')
        elif ('isinstance(%s, int)' % P) in gt:
            kinds.add('int')
            if not (isinstance(r, ast.Lambda) and canon(r.body) == P):
                ctx.violation(rule, fi, 'int -> %s' % (canon(r) if r is not None else None), 'a constant count must become a function returning that constant', fi.node.lineno, clause='g')
        elif ('isinstance(%s, Field)' % P) in gt:
            kinds.add('field')
            ok = isinstance(r, ast.Lambda) and canon(r.body, {r.args.args[0].arg: 'PKT'}) == 'getattr(PKT, %s.field_name)' % P if isinstance(r, ast.Lambda) and r.args.args else False
            if not ok:
                ctx.violation(rule, fi, 'Field -> %s' % (canon(r) if r is not None else None), 'a field count must read that field\'s value from the packet', fi.node.lineno, clause='g')
        elif any(('isinstance(%s, (UnaryExpr' % P) in g and not g.startswith('not ') for g in gt):
            kinds.add('expr')
            if r is None or canon(r) != 'compile_expr_into_callable(%s)' % P:
                ctx.violation(rule, fi, 'expression -> %s' % (canon(r) if r is not None else None), 'a field expression must be compiled', fi.node.lineno, clause='g')
        elif p.raises():
            kinds.add('reject')
    if kinds >= {'callable', 'int', 'field', 'expr', 'reject'}:
        ctx.holds(rule, fi, 'count: callable | int | Field | expression | else ValueError', 'every accepted kind is normalised as declared', fi.node.lineno, clause='g')
    else:
        ctx.violation(rule, fi, 'count kinds handled: %s' % sorted(kinds), 'expected callable, int, Field, expression and a rejecting path', fi.node.lineno, clause='g')
    P = fr.node.args.args[0].arg
    kinds = set()
    for p in w.paths(fr.node):
        gt = gtexts(p)
        r = p.ret()
        if p.raises():
            kinds.add('reject')
        elif r is not None and canon(r) == P:
            kinds.add('callable')
        elif r is not None and 'compile_expr_into_callable(' in canon(r):
            kinds.add('field' if 'convert_a_field_raw_condition' in canon(r) else 'expr')
    if kinds >= {'callable', 'field', 'expr', 'reject'}:
        ctx.holds(rule, fr, 'condition: callable | Field -> truth expression -> compiled | expression -> compiled | else ValueError', 'every accepted kind is normalised as declared', fr.node.lineno, clause='g')
    else:
        ctx.violation(rule, fr, 'condition kinds handled: %s' % sorted(kinds), 'expected callable, Field, expression and a rejecting path', fr.node.lineno, clause='g')
    # Sequence._compile / Optional._compile route count / until / when through the normalisers
    sqc = repo.cls('Sequence')
    sq = sqc.methods.get('_compile')
    ctor = sqc.methods.get('__init__')
    tm = [n for n in ast.walk(ctor.node) if isinstance(n, ast.Assign) and canon(n.targets[0]) == 'self.tmp']
    order = [canon(x) for x in tm[0].value.elts] if tm and isinstance(tm[0].value, ast.Tuple) else None
    if order is None or sorted(order) != ['count', 'until', 'when']:
        ctx.violation(rule, ctor, 'self.tmp = %s' % (canon(tm[0].value) if tm else None), 'count / until / when are not kept for _compile', ctor.node.lineno, clause='g')
    else:
        idx = {nm: 'self.tmp[%d]' % i for i, nm in enumerate(order)}
        w2 = repo.walker(max_paths=ctx.max_paths)
        want = {'get_how_many_elements': 'normalize_count_condition_into_a_callable(%s)' % idx['count'],
                'until_condition': 'normalize_raw_condition_into_a_callable(%s)' % idx['until'],
                'when': 'normalize_raw_condition_into_a_callable(%s)' % idx['when']}
        got = {k: set() for k in want}
        for p in w2.paths(sq.node, cls=sqc):
            if p.raises():
                continue
            for e in p.effects:
                if e.kind == 'store_attr' and canon(e.obj) == 'self' and e.name in want and not (isinstance(e.value, ast.Constant) and e.value.value is None):
                    v = e.value
                    if isinstance(v, ast.IfExp):
                        v = v.orelse if (isinstance(v.body, ast.Constant) and v.body.value is None) else v.body
                    got[e.name].add(canon(v))
        bad = {k: sorted(v) for k, v in got.items() if v != {want[k]}}
        if not bad:
            ctx.holds(rule, sq, 'Sequence._compile: count -> count normaliser, until / when -> condition normaliser (slots %s)' % order, 'declared roles, same order as stored by the constructor', sq.node.lineno, clause='g')
        else:
            ctx.violation(rule, sq, 'Sequence._compile: %s' % bad, 'count / until / when are not routed to their own normalisers (expected %s)' % {k: want[k] for k in bad}, sq.node.lineno, clause='g')
    opc = repo.cls('Optional')
    op = opc.methods.get('_compile')
    okw = False
    for p in repo.walker().paths(op.node, cls=opc):
        for e in p.effects:
            if e.kind == 'store_attr' and canon(e.obj) == 'self' and e.name == 'when' and canon(e.value) == 'normalize_raw_condition_into_a_callable(self.tmp)':
                okw = True
    octor = opc.methods.get('__init__')
    stored = any(isinstance(n, ast.Assign) and canon(n.targets[0]) == 'self.tmp' and canon(n.value) == 'when' for n in ast.walk(octor.node))
    if okw and stored:
        ctx.holds(rule, op, 'Optional: self.tmp = when; self.when = condition normaliser(self.tmp)', 'declared role', op.node.lineno, clause='g')
    else:
        ctx.violation(rule, op, 'Optional._compile', 'the when condition is not normalised from the value given to the constructor', op.node.lineno, clause='g')


def check_truth_conversion(ctx):
    """a field used as a condition becomes the deferred truth of its value: __nonzero__ when the
    field has it (integers, optionals), else __len__ (sequences) -- never a comparison"""
    repo = ctx.repo
    rule = 'C08-normalisers'
    fi = repo.module_funcs.get(('structural_fields', 'convert_a_field_raw_condition_into_a_boolean_unary_expression'))
    if fi is None:
        # inlined elsewhere: find the function the Field branch of the condition normaliser calls
        fr = repo.module_funcs.get(('structural_fields', 'normalize_raw_condition_into_a_callable'))
        name = None
        for n in ast.walk(fr.node):
            if isinstance(n, ast.If) and 'isinstance(raw_condition, Field)' in unparse(n.test):
                for c in ast.walk(n):
                    if isinstance(c, ast.Call) and isinstance(c.func, ast.Name) and c.func.id != 'isinstance':
                        name = c.func.id
        fi = repo.module_funcs.get(('structural_fields', name)) if name else None
    if fi is None:
        ctx.undecided(rule, ('bisturi/structural_fields.py', '<module>'), 'field -> truth conversion', 'helper not found')
        return
    P = fi.node.args.args[0].arg
    w = repo.walker()
    ok = False
    order = None
    for n in ast.walk(fi.node):
        if isinstance(n, (ast.Tuple, ast.List)) and n.elts and all(isinstance(x, ast.Constant) and isinstance(x.value, str) and x.value.startswith('__') for x in n.elts):
            order = [x.value for x in n.elts]
    rets = [r for r in ast.walk(fi.node) if isinstance(r, ast.Return) and r.value is not None]
    good_ret = all(isinstance(r.value, ast.Call) and isinstance(r.value.func, ast.Call) and call_name(r.value.func) == 'getattr'
                   and canon(r.value.func.args[0]) == P for r in rets) and rets
    if order == ['__nonzero__', '__len__'] and good_ret:
        ctx.holds(rule, fi, 'field condition -> first of (__nonzero__, __len__) the field has, called', 'truth of the value (None / empty are false), integers by value', fi.node.lineno, clause='g')
    else:
        ctx.violation(rule, fi, 'field condition -> %s' % ('; '.join(stmt_text(r) for r in rets)[:160] or 'no return'),
                      'a field used as a condition must become its deferred truth value (__nonzero__, else __len__): a comparison such as field != 0 is true for None, b\'\' and []', fi.node.lineno, clause='g')


def check_modifier_plumbing(ctx):
    """Field.repeated / Field.when hand every argument to the same-named constructor parameter;
    the constructors keep them under the attributes the run-time code reads"""
    repo = ctx.repo
    rule = 'C08-modifier-plumbing'
    fld = repo.cls('Field')
    for mname, cname, want in (('repeated', 'Sequence', {'prototype': 'self', 'count': 'count', 'until': 'until', 'when': 'when', 'default': 'default', 'aligned': 'aligned'}),
                               ('when', 'Optional', {'prototype': 'self', 'when': 'condition', 'default': 'default'})):
        fi = fld.methods.get(mname)
        ctor = repo.cls(cname).methods.get('__init__')
        if fi is None or ctor is None:
            ctx.undecided(rule, (fld.file, 'Field.' + mname), mname, 'modifier / constructor not found')
            continue
        cparams = [a.arg for a in ctor.node.args.args][1:]
        calls = [n for n in ast.walk(fi.node) if isinstance(n, ast.Call) and call_name(n) == cname]
        if len(calls) != 1:
            ctx.violation(rule, fi, 'Field.%s' % mname, 'the modifier does not build exactly one %s' % cname, fi.node.lineno, clause='g')
            continue
        c = calls[0]
        bound = dict(zip(cparams, [canon(a) for a in c.args]))
        for k in c.keywords:
            if k.arg:
                bound[k.arg] = canon(k.value)
        # the modifier's own parameter names
        if mname == 'when':
            mp = [a.arg for a in fi.node.args.args][1:]
            want = {'prototype': 'self', 'when': mp[0] if mp else 'condition', 'default': mp[1] if len(mp) > 1 else 'default'}
        bad = {k: bound.get(k) for k in want if bound.get(k) != want[k]}
        st = 'Field.%s -> %s(%s)' % (mname, cname, ', '.join('%s=%s' % kv for kv in sorted(bound.items())))
        if bad:
            ctx.violation(rule, fi, st, 'arguments reach the wrong constructor parameter: %s (expected %s)' % (bad, {k: want[k] for k in bad}), c.lineno, clause='g')
        else:
            ctx.holds(rule, fi, st, 'every argument reaches the parameter of the same meaning', c.lineno, clause='g')
    # constructors keep them where the run-time code reads them
    sq = repo.cls('Sequence').methods.get('__init__')
    keep = {}
    for n in ast.walk(sq.node):
        if isinstance(n, ast.Assign) and isinstance(n.targets[0], ast.Attribute) and canon(n.targets[0].value) == 'self':
            keep[n.targets[0].attr] = canon(n.value)
    if keep.get('prototype_field') == 'prototype' and keep.get('aligned_to') == 'aligned':
        ctx.holds(rule, sq, 'Sequence.__init__: prototype_field = prototype; aligned_to = aligned', 'stored where unpack / pack read them', sq.node.lineno, clause='g')
    else:
        ctx.violation(rule, sq, 'Sequence.__init__ stores %s' % {k: keep.get(k) for k in ('prototype_field', 'aligned_to')}, 'the element prototype / alignment are not kept unchanged', sq.node.lineno, clause='g')
    # exactly one of count / until
    xor_ok = False
    for n in ast.walk(sq.node):
        if isinstance(n, ast.If) and any(isinstance(x, ast.Raise) for x in n.body):
            t = canon(n.test)
            if 'count is None' in t and 'until is None' in t and 'count is not None' in t and 'until is not None' in t:
                xor_ok = True
    if xor_ok:
        ctx.holds(rule, sq, 'Sequence.__init__: exactly one of count / until, else ValueError', 'the two repetition modes are exclusive', sq.node.lineno, clause='g')
    else:
        ctx.violation(rule, sq, 'Sequence.__init__', 'a sequence with both or neither of count / until is accepted', sq.node.lineno, clause='g')
    op = repo.cls('Optional').methods.get('__init__')
    keep = {}
    for n in ast.walk(op.node):
        if isinstance(n, ast.Assign) and isinstance(n.targets[0], ast.Attribute) and canon(n.targets[0].value) == 'self':
            keep[n.targets[0].attr] = canon(n.value)
    if keep.get('prototype_field') == 'prototype':
        ctx.holds(rule, op, 'Optional.__init__: prototype_field = prototype', 'stored where unpack / pack read it', op.node.lineno, clause='g')
    else:
        ctx.violation(rule, op, 'Optional.__init__ stores %s' % keep, 'the element prototype is not kept', op.node.lineno, clause='g')


def check_late_binding(ctx):
    """(g) B023-style: a lambda / nested def defined in a loop body that reads the loop variable"""
    repo = ctx.repo
    rule = 'C08-no-late-binding'
    n = 0
    for fi in repo.functions.values():
        for lp in ast.walk(fi.node):
            if not isinstance(lp, (ast.For, ast.While)):
                continue
            loopvars = set()
            if isinstance(lp, ast.For):
                loopvars |= {x.id for x in ast.walk(lp.target) if isinstance(x, ast.Name)}
            for s in lp.body:
                for x in ast.walk(s):
                    if isinstance(x, ast.Assign):
                        for t in x.targets:
                            loopvars |= {y.id for y in ast.walk(t) if isinstance(y, ast.Name)}
            for s in lp.body:
                for x in ast.walk(s):
                    if isinstance(x, (ast.Lambda, ast.FunctionDef)):
                        n += 1
                        a = x.args
                        bound = {y.arg for y in a.args + a.kwonlyargs + a.posonlyargs}
                        if a.vararg: bound.add(a.vararg.arg)
                        if a.kwarg: bound.add(a.kwarg.arg)
                        body = x.body if isinstance(x.body, list) else [x.body]
                        used = {y.id for b in body for y in ast.walk(b) if isinstance(y, ast.Name) and isinstance(y.ctx, ast.Load)}
                        defaults = {y.id for d in a.defaults for y in ast.walk(d) if isinstance(y, ast.Name)}
                        late = (used & loopvars) - bound
                        if late:
                            # returned / called immediately inside the same iteration is fine only if not stored
                            ctx.violation(rule, fi, stmt_text(x)[:120], 'a closure created in a loop reads the loop variable(s) %s: every closure sees the last value' % sorted(late), x.lineno, clause='g')
    ctx.unit('closures_in_loops', n)
    if not any(o.rule == rule for o in ctx.obs):
        ctx.holds(rule, ('bisturi/', '*'), 'closures defined inside loops: %d' % n, 'none reads a loop variable late', 0, clause='g')


def check(ctx):
    repo = ctx.repo
    sq, op, rf = repo.cls('Sequence'), repo.cls('Optional'), repo.cls('Ref')
    for ci, names in ((sq, ('unpack', 'pack')), (op, ('unpack', 'pack'))):
        for n in names:
            if n not in ci.methods:
                raise Undecided('anchor %s.%s not found' % (ci.name, n))
    ctx.unit('functions', 10)
    check_sequence_unpack(ctx, sq)
    check_sequence_pack(ctx, sq)
    check_optional(ctx, op)
    check_ref(ctx, rf)
    check_normalisers(ctx)
    check_truth_conversion(ctx)
    check_modifier_plumbing(ctx)
    check_late_binding(ctx)
    ctx.floor('obligations', len(ctx.obs), 20)
    ctx.trust(*ASSUMPTIONS)
