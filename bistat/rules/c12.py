"""C12 -- every failure is a PacketError that locates the failing field.

Rule families R7 (error discipline) and R2 (driver sibling agreement) on the four
drivers (Packet.unpack_impl / pack_impl and the two generated-code templates):

 (a) every field call is inside the try; the PacketError handler comes first,
     appends (cursor, name, class-name) and re-raises; the Exception handler
     raises PacketError(phase, name, class-name, cursor, str(e)) with phase True
     in unpack drivers and False in pack drivers;
 (b) in unpack the cursor variable advances only with a field's return value
     (vectorised block: after StructUnpack), "name" is bound before each call;
 (c) Packet.unpack: non-bytes input -> ValueError before anything else; every
     handler returns None under ``silent``; the packet is attached to the error;
 (d) PacketError: the innermost entry is fields_stack[0], parents are appended;
     the three tuple shapes (constructor, add_parent..., __str__) agree;
 (e) __str__ is total: every %-format has as many conversions as arguments and
     numeric conversions are applied to stack offsets only;
 (f) everything that can raise inside a driver is inside the try (descriptor
     sync hooks included);
 (h) a value of the wrong type fails inside the field's own pack call (typed chunks), and a
     field that cannot be decoded fails inside its own unpack call (strict decode, C04);
 (g) a rejected Fragments.insert (colliding positions on pack) leaves the cursor where the
     failing field began (C11 clause 7).

Round 4: (R7-one-entry-per-level) only the drivers create a PacketError; every append goes
through the collision guards of insert.

Round 5: a class-level fields_stack filled in place; try-else is outside the handlers; narrower
handlers before the catch-all in the drivers.

Round 6: each bit-run member merges its own value (C07-d); every generated half can name what
its handlers use (C15-E); a context-manager class used by the drivers is their handler.
Round 7: (e') the text of every package exception class is computable at every raise site; a run
packed inside a comprehension binds the handler's name in another scope; a child's PacketError
passes through the enclosing field unchanged.
Round 8 (F12): integer conversions of stack offsets are protected, or Packet.unpack rejects an
offset that is not an integer; includes the Optional pair rule of C08.
Round 9: every path through add_parent_field_and_packet appends exactly one entry; every use of a
stack offset that needs an integer (slice bound, index, arithmetic) in the rendering is protected.
"""
import ast
import re

from .. import Undecided
from ..expr import canon, unparse, call_name
from ..model import stmt_text
from .. import drivers as D
from ..lts import Classifier, extract, method_callee, compare, compile_spec, seq, alt, star, lit

def _through_local(func, e):
    """the value of a local name that is assigned exactly once in the function"""
    if isinstance(e, ast.Name):
        asg = [a for a in ast.walk(func) if isinstance(a, ast.Assign) and any(isinstance(t, ast.Name) and t.id == e.id for t in a.targets)]
        other = [x for x in ast.walk(func) if isinstance(x, ast.Name) and x.id == e.id and isinstance(x.ctx, ast.Store)]
        if len(asg) == 1 and len(other) == 1 and len(asg[0].targets) == 1:
            return asg[0].value
    return e


EXPLANATION = __doc__
LEVEL_RULE = 'one obligation per (driver | handler | format site | clause); distinct = distinct (rule, function, construct)'
ASSUMPTIONS = [
    'PacketError is a subclass of Exception (checked), so handler order matters',
    'f(**k) gives the callee a fresh dict (language semantics)',
    'the field named by the innermost entry is the field whose call raised; for composite fields on the pack side the cursor is already inside the sequence (not decided)',
]

CONV = re.compile(r'%(?:\((\w+)\))?[#0\- +]*(\*|\d+)?(?:\.(\*|\d+))?[hlL]?([diouxXeEfFgGcrsa%])')


def conversions(fmt):
    return [m.group(4) for m in CONV.finditer(fmt) if m.group(4) != '%']


def check_wrappers(ctx, only_unpack=False, rule_prefix='R7'):
    drivers = D.get_drivers(ctx.repo)
    for d in drivers:
        if only_unpack and d.kind != 'unpack':
            continue
        ctx.unit('drivers')
        D.check_try_span(ctx, rule_prefix + '-try-span', d)
        D.check_handlers(ctx, rule_prefix + '-handlers', d)
    if only_unpack:
        check_packet_unpack(ctx, rule_prefix + '-packet-unpack')
    return drivers


class _UnpackEvents(Classifier):
    """events of the public entry Packet.unpack"""

    def __init__(self, names, silent):
        self.CLS, self.RAW, self.OFF, self.SILENT = names
        self.silent = silent
        self.pkt = None

    def call(self, c):
        f = canon(c.func)
        if f == self.CLS:
            kw = {k.arg: canon(k.value) for k in c.keywords if k.arg}
            self.pkt = canon(c)
            return ('new-packet' if kw.get('_initialize_fields') == 'False' and not c.args else 'new-packet[%s]' % canon(c)[:40], ())
        if isinstance(c.func, ast.Attribute) and c.func.attr == 'unpack_impl':
            a = D.args_of(c, ['raw', 'offset'])
            good = a is not None and canon(a['raw']) == self.RAW and canon(a['offset']) == self.OFF and canon(c.func.value) == '<ev new-packet>'
            return ('impl' if good else 'impl[%s]' % canon(c)[:60], ('ok', 'exc:PacketError', 'exc:Exception'))
        return None

    def test(self, text, e):
        if text in ('isinstance(%s, bytes)' % self.RAW, 'isinstance(%s, (bytes,))' % self.RAW):
            return 'raw-is-bytes'
        return None

    def truth(self, text, e):
        if text == self.SILENT:
            return self.silent
        return None

    def store(self, target, value):
        if isinstance(target, ast.Attribute) and target.attr == 'packet' and canon(target.value).startswith('<exc '):
            return 'attach-packet' if canon(value) == '<ev new-packet>' else 'attach[%s]' % canon(value)[:30]
        return None

    def ret(self, v):
        if v is None or (isinstance(v, ast.Constant) and v.value is None):
            return 'None'
        return 'packet' if canon(v) == '<ev new-packet>' else canon(v)[:40]


def _unpack_spec(silent):
    fail = lambda cls: lit('return[None]') if silent else lit('raise[%s]' % cls)
    return alt(seq(lit('raw-is-bytes-'), lit('raise[ValueError]')),
               seq(lit('raw-is-bytes+'), lit('new-packet'),
                   alt(seq(lit('impl:ok'), lit('return[packet]')),
                       seq(lit('impl:exc:PacketError'), lit('attach-packet'), fail('PacketError')),
                       seq(lit('impl:exc:Exception'), fail('Exception')))))


def check_packet_unpack(ctx, rule):
    """Packet.unpack as an event language: bytes check first (ValueError otherwise), a packet
    built without field initialisation, the driver called with the caller's raw / offset; a
    PacketError gets the packet attached; under silent every failure becomes None, otherwise it
    propagates -- however the try / except / else and the silent tests are arranged"""
    repo = ctx.repo
    fi = repo.cls('Packet').methods.get('unpack')
    if fi is None:
        raise Undecided('anchor Packet.unpack not found')
    ctx.unit('functions')
    names = [x.arg for x in fi.node.args.args]
    if len(names) < 4:
        raise Undecided('Packet.unpack does not take (cls, raw, offset, silent)')
    for silent in (False, True):
        label = 'Packet.unpack, silent=%s' % silent
        try:
            code = extract(fi.node, _UnpackEvents(tuple(names[:4]), silent), callee=method_callee(repo, repo.cls('Packet')))
        except Undecided as e:
            ctx.undecided(rule, fi, label, str(e), fi.node.lineno)
            continue
        cmp_ = compare(code, compile_spec(_unpack_spec(silent)))
        diff = cmp_[1:] if cmp_[0] == 'differs' else None
        if cmp_[0] == 'foreign':
            ctx.undecided(rule, fi, label, 'Packet.unpack does things the documented behaviour does not speak about (%s): its event language cannot be compared' % ', '.join(cmp_[1][:4]), fi.node.lineno)
        elif diff is None:
            ctx.holds(rule, fi, label, 'non-bytes -> ValueError; parse with the caller\'s raw and offset; %s' % ('every failure returns None' if silent else 'failures propagate, a PacketError carries the packet'), fi.node.lineno)
        else:
            trace, which = diff
            if which == 'only-first':
                why = 'the code can do [%s] after [%s]; the documented behaviour does not allow it there' % (trace[-1], ' '.join(trace[:-1]))
            else:
                why = 'after [%s] the documented behaviour requires [%s], which the code cannot do there' % (' '.join(trace[:-1]), trace[-1])
            ctx.violation(rule, fi, '%s: %s' % (label, ' '.join(trace)[:300]), why, fi.node.lineno)


def check_exception_texts_total(ctx, rule='R7-error-text-total'):
    """Round 7.  the drivers turn a field's failure into a PacketError by str(e): the text of every
    exception class of the package must be computable for every raise site.  A __str__ that
    %-formats a constructor argument with an integer conversion (%i %d %x) fails with TypeError --
    inside the handler, so a bare TypeError leaves unpack / pack -- when a raise site passes a byte
    string (a slice of the input) for it"""
    repo = ctx.repo
    n_cls = n_sites = 0
    for ci in repo.classes.values():
        if ci.name == 'PacketError' or not any(b in ('Exception', 'BaseException', 'ValueError', 'TypeError', 'RuntimeError', 'EOFError', 'IOError', 'OSError', 'LookupError', 'KeyError', 'IndexError') or b.endswith('Error') for b in ci.base_names):
            continue
        strm = ci.methods.get('__str__')
        init = ci.methods.get('__init__')
        if strm is None or init is None:
            continue
        n_cls += 1
        params = [a.arg for a in init.node.args.args][1:]
        kept = {}
        for n in ast.walk(init.node):
            if isinstance(n, ast.Assign) and len(n.targets) == 1 and isinstance(n.targets[0], ast.Attribute) and canon(n.targets[0].value) == 'self' \
                    and isinstance(n.value, ast.Name) and n.value.id in params:
                kept[n.targets[0].attr] = n.value.id
        # which parameters are formatted with an integer conversion
        int_params = {}
        import re as _re
        for n in ast.walk(strm.node):
            if isinstance(n, ast.BinOp) and isinstance(n.op, ast.Mod) and isinstance(n.left, ast.Constant) and isinstance(n.left.value, str):
                convs = _re.findall(r'%(?:\([^)]*\))?[#0\- +]*\d*(?:\.\d+)?([a-zA-Z%])', n.left.value)
                convs = [c for c in convs if c != '%']
                vals = n.right.elts if isinstance(n.right, ast.Tuple) else [n.right]
                if len(vals) != len(convs):
                    continue
                for c, v in zip(convs, vals):
                    if c in 'idxXo' and isinstance(v, ast.Attribute) and canon(v.value) == 'self' and v.attr in kept:
                        int_params[kept[v.attr]] = c
        if not int_params:
            continue
        for fn in repo.functions.values():
            defs = {}
            for n in ast.walk(fn.node):
                if isinstance(n, ast.Assign) and len(n.targets) == 1 and isinstance(n.targets[0], ast.Name):
                    defs.setdefault(n.targets[0].id, []).append(n.value)
            for r in ast.walk(fn.node):
                if not (isinstance(r, ast.Raise) and isinstance(r.exc, ast.Call) and call_name(r.exc) and call_name(r.exc).split('.')[-1] == ci.name):
                    continue
                n_sites += 1
                bound = dict(zip(params, r.exc.args))
                for k_ in r.exc.keywords:
                    if k_.arg:
                        bound[k_.arg] = k_.value
                for prm, conv in int_params.items():
                    a = bound.get(prm)
                    if a is None:
                        continue
                    v = a
                    if isinstance(v, ast.Name) and len(defs.get(v.id, [])) == 1:
                        v = defs[v.id][0]
                    is_bytes = isinstance(v, ast.Subscript) and isinstance(v.slice, ast.Slice) and canon(v.value) in ('raw', 'data', 'string')
                    is_bytes = is_bytes or (isinstance(v, ast.Constant) and isinstance(v.value, (bytes, str)))
                    st = '%s: raise %s(... %s=%s ...)' % (fn.qual, ci.name, prm, canon(a)[:40])
                    if is_bytes:
                        ctx.violation(rule, fn, st, '%s.__str__ formats %s with %%%s but this site passes a byte string (%s): str(e) in the driver\'s handler raises TypeError, which leaves unpack / pack bare instead of a PacketError naming this field' % (ci.name, prm, conv, canon(v)[:40]), r.lineno, clause='e', witness=True)
                    else:
                        ctx.holds(rule, fn, st, 'not a byte string', r.lineno, clause='e')
    ctx.unit('exception_classes_with_text', n_cls)
    if not n_cls:
        ctx.holds(rule, ('bisturi', '<exception classes>'), 'no exception class of the package besides PacketError computes its text', 'str(e) of a field failure is the text given at the raise site', 0, clause='e')


def check_child_errors_pass_through(ctx, rule='R7-child-error-passes-through'):
    """Round 7.  a field that parses / packs a child (an element, a referenced packet) lets the
    child's PacketError through unchanged: it carries the stack built inside the child.  A handler
    around the child call that catches it (Exception, BaseException, PacketError, bare) and raises
    another object -- type(e)(text), Exception(str(e)) -- throws that stack away: the innermost
    entry then names the enclosing field instead of the field that failed"""
    repo = ctx.repo
    seen = set()
    n_try = 0
    for ci in repo.field_classes():
        for s_ in repo.strategies(ci):
            for kind in ('pack', 'unpack'):
                fi = s_.get(kind)
                if fi is None or fi.id in seen:
                    continue
                seen.add(fi.id)
                for t in ast.walk(fi.node):
                    if not isinstance(t, ast.Try):
                        continue
                    calls = [c for b in t.body for c in ast.walk(b) if isinstance(c, ast.Call) and (
                        (isinstance(c.func, ast.Attribute) and c.func.attr in ('pack', 'unpack', 'pack_impl', 'unpack_impl')) or (isinstance(c.func, ast.Name) and c.func.id in ('pack', 'unpack')))]
                    if not calls:
                        continue
                    n_try += 1
                    for h in t.handlers:
                        types = ['BaseException'] if h.type is None else [canon(x).split('.')[-1] for x in (h.type.elts if isinstance(h.type, ast.Tuple) else [h.type])]
                        if not any(x in ('Exception', 'BaseException', 'PacketError') for x in types):
                            continue
                        raises = [x for x in ast.walk(h) if isinstance(x, ast.Raise)]
                        st = '%s: try: %s except %s' % (fi.qual, canon(calls[0])[:50], ', '.join(types))
                        same = [x for x in raises if x.exc is None or (isinstance(x.exc, ast.Name) and x.exc.id == h.name)]
                        other = [x for x in raises if x not in same]
                        if other:
                            ctx.violation(rule, fi, '%s: %s' % (st, stmt_text(other[0])[:80]), 'the failure of the child is replaced by a new exception object: a PacketError raised inside the child loses its stack (or cannot even be rebuilt from a text), so the reported innermost field is the enclosing one', other[0].lineno, clause='a', witness=True)
                        elif not raises:
                            ctx.violation(rule, fi, st, 'the failure of the child is swallowed: no PacketError is raised for it', h.lineno, clause='a', witness=True)
                        else:
                            ctx.holds(rule, fi, st, 'the caught exception itself is re-raised', h.lineno, clause='a')
    ctx.unit('try_around_child_calls', n_try)
    if not n_try:
        ctx.holds(rule, ('bisturi', '<field strategies>'), 'no field strategy wraps a child pack / unpack in a try', 'child errors pass through', 0, clause='a')


def check_packet_error_class(ctx):
    repo = ctx.repo
    if ctx.prop == 'C12':
        # Round 8: a present optional field is parsed, so that a cut at its first byte fails in that field (C08)
        from .c08 import check_optional
        try:
            check_optional(ctx, repo.cls('Optional'))
        except Undecided as e:
            ctx.undecided('C08-optional', ('bisturi/structural_fields.py', 'Optional'), 'Optional', str(e), 0)
    check_exception_texts_total(ctx)
    if ctx.prop == 'C12':
        check_child_errors_pass_through(ctx)
    pe = repo.cls('PacketError')
    if not repo.is_subclass(pe, 'PacketError') or 'Exception' not in pe.base_names:
        ctx.violation('R7-error-class', (pe.file, 'PacketError'), 'class PacketError(%s)' % ', '.join(pe.base_names), 'PacketError does not derive from Exception', pe.node.lineno)
    init = pe.methods.get('__init__')
    addp = pe.methods.get('add_parent_field_and_packet')
    strm = pe.methods.get('__str__')
    if not (init and addp and strm):
        raise Undecided('anchor PacketError.__init__/add_parent_field_and_packet/__str__ not found')
    ctx.unit('functions', 3)
    rule = 'R7-stack-shape'
    # (d) constructor creates [(offset, field_name, packet_class_name)]
    shape0 = None
    for n in ast.walk(init.node):
        if isinstance(n, ast.Assign) and isinstance(n.targets[0], ast.Attribute) and n.targets[0].attr == 'fields_stack':
            v = n.value
            if isinstance(v, ast.List) and len(v.elts) == 1 and isinstance(v.elts[0], ast.Tuple):
                shape0 = [canon(x) for x in v.elts[0].elts]
                ctx.holds(rule, init, stmt_text(n), 'innermost entry stored first, shape %s' % shape0, n.lineno)
            elif isinstance(v, ast.List) and not v.elts:
                # seeded through the same method that adds the parents
                seeds = [c for c in ast.walk(init.node) if isinstance(c, ast.Call) and isinstance(c.func, ast.Attribute) and c.func.attr == addp.node.name
                         and canon(c.func.value) == init.node.args.args[0].arg]
                ap = [a.arg for a in addp.node.args.args][1:]
                if len(seeds) == 1 and len(seeds[0].args) == len(ap) and not seeds[0].keywords:
                    shape0 = [canon(x) for x in seeds[0].args]
                    ctx.holds(rule, init, '%s; %s' % (stmt_text(n), stmt_text(seeds[0])), 'innermost entry stored first (through %s), shape %s' % (addp.node.name, shape0), n.lineno)
                else:
                    ctx.undecided(rule, init, stmt_text(n), 'the stack starts empty and the rule cannot see how the innermost entry is stored', n.lineno)
            else:
                ctx.undecided(rule, init, stmt_text(n), 'initial stack is not a one-element list of a tuple', n.lineno)
    if shape0 is None:
        # no per-instance list: is the stack the class-level list, filled in place?
        pe_cls = repo.cls('PacketError')
        shared = [st_ for st_ in pe_cls.node.body if isinstance(st_, ast.Assign) and len(st_.targets) == 1 and canon(st_.targets[0]) == 'fields_stack'
                  and isinstance(st_.value, (ast.List, ast.Call))]
        grows = [c for c in ast.walk(addp.node) if isinstance(c, ast.Call) and isinstance(c.func, ast.Attribute) and c.func.attr in ('append', 'insert', 'extend')
                 and isinstance(c.func.value, ast.Attribute) and c.func.value.attr == 'fields_stack']
        if shared and grows:
            ctx.violation(rule, init, 'class PacketError: %s; %s' % (stmt_text(shared[0]), stmt_text(grows[0])), 'the constructor never gives the error a list of its own: every PacketError of the process appends to the one class-level list, so a later failure carries the entries of all earlier ones (the first entry names the first failure ever)', shared[0].lineno, witness=True)
        else:
            ctx.undecided(rule, init, 'PacketError.__init__', 'no assignment of fields_stack found', init.node.lineno)
    for n in ast.walk(init.node):
        if isinstance(n, ast.Assign) and isinstance(n.targets[0], ast.Attribute) and n.targets[0].attr == 'was_error_found_in_unpacking_phase':
            params = [a.arg for a in init.node.args.args]
            if isinstance(n.value, ast.Name) and n.value.id in params and params.index(n.value.id) == 1:
                ctx.holds(rule, init, stmt_text(n), 'phase flag is the first constructor argument', n.lineno)
            else:
                ctx.violation(rule, init, stmt_text(n), 'phase flag is not taken from the first constructor argument', n.lineno)
    shape1 = None
    for n in ast.walk(addp.node):
        if isinstance(n, ast.Call) and isinstance(n.func, ast.Attribute) and isinstance(n.func.value, ast.Attribute) and n.func.value.attr == 'fields_stack':
            st = stmt_text(n)
            if n.func.attr != 'append':
                ctx.violation(rule, addp, st, 'parent entries are not appended (method %s): fields_stack[0] would no longer be the innermost entry' % n.func.attr, n.lineno)
            elif len(n.args) == 1 and isinstance(_through_local(addp.node, n.args[0]), ast.Tuple):
                shape1 = [canon(x) for x in _through_local(addp.node, n.args[0]).elts]
                if shape0 is not None and shape1 != shape0:
                    ctx.violation(rule, addp, st, 'parent entry shape %s differs from the innermost entry shape %s' % (shape1, shape0), n.lineno)
                else:
                    ctx.holds(rule, addp, st, 'parent appended outward with the same (offset, field, class) shape', n.lineno)
            else:
                ctx.undecided(rule, addp, st, 'appended value is not a tuple display', n.lineno)
    if shape1 is None:
        ctx.undecided(rule, addp, 'add_parent_field_and_packet', 'no append to fields_stack found', addp.node.lineno)
    else:
        # Round 9.  one entry per enclosing reference: every path through the method appends
        for p_ in ctx.repo.walker().paths(addp.node, cls=pe):
            if p_.raises():
                continue
            apps = p_.calls(lambda e: isinstance(e.call.func, ast.Attribute) and e.call.func.attr == 'append' and canon(e.call.func.value) == 'self.fields_stack')
            gt = [g for g in p_.guard_texts()]
            if len(apps) == 1:
                ctx.holds(rule, addp, 'add_parent_field_and_packet appends once [%s]' % '; '.join(gt)[:80], 'the handler of every enclosing reference leaves exactly one entry', addp.node.lineno)
            else:
                ctx.violation(rule, addp, 'add_parent_field_and_packet appends %d entries when [%s]' % (len(apps), '; '.join(gt)[:100]), 'the entry of an enclosing reference is %s: the stack no longer has one entry per level (an enclosing reference can have the very same offset, field name and class name as the entry below it)' % ('dropped' if not apps else 'repeated'), addp.node.lineno)
    # (d)/(e) __str__
    rule = 'R7-str-total'
    offset_vars = set()
    npos = len(shape0) if shape0 else 3
    off_idx = shape0.index('offset') if shape0 and 'offset' in shape0 else 0
    str_funcs = repo.reach(strm)            # __str__ and the formatting helpers it calls
    str_nodes = [x for f in str_funcs for x in ast.walk(f.node)]
    for n in str_nodes:
        tgt = None
        if isinstance(n, (ast.For, ast.comprehension)) and 'fields_stack' in unparse(n.iter) and not isinstance(n.target, ast.Name):
            tgt = n.target
        elif isinstance(n, ast.Assign) and 'fields_stack' in unparse(n.value) and isinstance(n.targets[0], ast.Tuple):
            tgt = n.targets[0]
            if not (isinstance(n.value, ast.Subscript) and isinstance(n.value.slice, ast.Constant) and n.value.slice.value == 0):
                ctx.violation(rule, strm, stmt_text(n), 'the entry reported as the failing field is not fields_stack[0] (the innermost one)', n.lineno)
        elif isinstance(n, ast.Assign) and isinstance(n.targets[0], ast.Tuple) and len(n.targets[0].elts) == npos and isinstance(n.value, ast.Name) \
                and any(isinstance(f_.node, ast.FunctionDef) and n in ast.walk(f_.node) and n.value.id in [a.arg for a in f_.node.args.args] for f_ in str_funcs[1:]):
            tgt = n.targets[0]            # a helper unpacking the stack entry it was given
        if tgt is not None:
            if isinstance(tgt, ast.Tuple) and len(tgt.elts) == npos and all(isinstance(x, ast.Name) for x in tgt.elts):
                offset_vars.add(tgt.elts[off_idx].id)
                ctx.holds('R7-stack-shape', strm, stmt_text(tgt), 'unpacks %d-tuples, offset at index %d' % (npos, off_idx), n.lineno)
            else:
                ctx.violation('R7-stack-shape', strm, stmt_text(n)[:120], 'stack entries are unpacked into %s, but they are %d-tuples' % (unparse(tgt), npos), n.lineno)
    # a helper called with a whole stack entry spread over its parameters: helper(*entry)
    entry_vars = {b.target.id for b in str_nodes if isinstance(b, (ast.For, ast.comprehension)) and isinstance(b.target, ast.Name) and 'fields_stack' in unparse(b.iter)}
    for c in str_nodes:
        if isinstance(c, ast.Call) and len(c.args) == 1 and isinstance(c.args[0], ast.Starred) and isinstance(c.args[0].value, ast.Name) and c.args[0].value.id in entry_vars and not c.keywords:
            name = c.func.attr if isinstance(c.func, ast.Attribute) else c.func.id if isinstance(c.func, ast.Name) else None
            for f_ in str_funcs[1:]:
                if f_.node.name == name:
                    static = any(isinstance(d, ast.Name) and d.id == 'staticmethod' for d in f_.node.decorator_list)
                    ps = [a.arg for a in f_.node.args.args][(0 if static or f_.cls is None else 1):]
                    if len(ps) == npos:
                        offset_vars.add(ps[off_idx])
                        ctx.holds('R7-stack-shape', f_, '%s(%s) called with *%s' % (name, ', '.join(ps), c.args[0].value.id), 'takes a %d-tuple entry, offset at index %d' % (npos, off_idx), f_.node.lineno)
    nfmt = 0
    # the constructor (and add_parent...) must not fail either: an error while the PacketError is
    # being built replaces it by a bare TypeError / ValueError
    for m_ in (init, addp):
        env_ = {}
        for n in ast.walk(m_.node):
            if isinstance(n, ast.Assign) and len(n.targets) == 1 and isinstance(n.targets[0], ast.Name):
                env_[n.targets[0].id] = n.value
        for n in ast.walk(m_.node):
            if isinstance(n, ast.BinOp) and isinstance(n.op, ast.Mod):
                left = env_.get(n.left.id, n.left) if isinstance(n.left, ast.Name) else n.left
                if not isinstance(left, ast.Constant):
                    tmp = ast.BinOp(left=left, op=ast.Mod(), right=n.right)
                    if _looks_like_format(tmp):
                        ctx.violation(rule, m_, stmt_text(n)[:160], 'the format string of a percent-format is built at run time ({}): the message of the original error is part of it, and a "%" in that message (int.to_bytes: "%x format: an integer is required") makes the construction of the PacketError itself raise'.format(canon(left)[:80]), n.lineno, witness=True)
    for n in str_nodes:
        if isinstance(n, ast.BinOp) and isinstance(n.op, ast.Mod) and not isinstance(n.left, ast.Constant) and _looks_like_format(n):
            nfmt += 1
            ctx.violation(rule, strm, stmt_text(n)[:160], 'the format string of a percent-format is built at run time ({}): a "%" in the embedded text makes rendering raise'.format(canon(n.left)[:80]), n.lineno)
            continue
        if isinstance(n, ast.BinOp) and isinstance(n.op, ast.Mod) and isinstance(n.left, ast.Constant) and isinstance(n.left.value, str):
            nfmt += 1
            conv = conversions(n.left.value)
            args = n.right.elts if isinstance(n.right, ast.Tuple) else [n.right]
            st = stmt_text(n)[:160]
            if len(conv) != len(args):
                ctx.violation(rule, strm, st, '%d conversions but %d arguments: rendering raises TypeError' % (len(conv), len(args)), n.lineno)
                continue
            ok = True
            for cv, a in zip(conv, args):
                if cv in 'diouxXeEfFgGc':
                    if not (isinstance(a, ast.Name) and a.id in offset_vars) and not _is_int_expr(a):
                        ok = ctx.violation(rule, strm, st, 'numeric conversion %%%s applied to %s, which is not a stack offset: rendering may raise TypeError' % (cv, canon(a)), n.lineno)
            if ok:
                ctx.holds(rule, strm, st, '%d conversions / %d arguments; numeric conversions on offsets only' % (len(conv), len(args)), n.lineno)
    for n in str_nodes:
        if isinstance(n, ast.JoinedStr):
            nfmt += 1
            ok = True
            for v in n.values:
                if isinstance(v, ast.FormattedValue) and v.format_spec is not None:
                    spec = ''.join(x.value for x in v.format_spec.values if isinstance(x, ast.Constant))
                    if spec and spec[-1] in 'dxXobeEfFgGnc' and not (isinstance(v.value, ast.Name) and v.value.id in offset_vars) and not _is_int_expr(v.value):
                        ok = ctx.violation(rule, strm, stmt_text(n)[:160], 'numeric format spec :%s applied to %s, which is not a stack offset' % (spec, canon(v.value)), n.lineno)
            if ok:
                ctx.holds(rule, strm, stmt_text(n)[:160], 'f-string: total; numeric specs on offsets only', n.lineno)
    ctx.unit('format_sites', nfmt)
    # Round 8 (F12): the offsets in the stack are what the caller of Packet.unpack passed as
    # ``offset`` (and what the fields computed from it): a numeric conversion of an offset is total
    # only if that argument is known to be an integer, or the conversion is protected
    num_sites = []
    for f_ in str_funcs:
        par_ = {}
        for pn in ast.walk(f_.node):
            for c_ in ast.iter_child_nodes(pn):
                par_[id(c_)] = pn
        for n in ast.walk(f_.node):
            if isinstance(n, ast.BinOp) and isinstance(n.op, ast.Mod) and isinstance(n.left, ast.Constant) and isinstance(n.left.value, str) \
                    and any(cv in 'diouxX' for cv in conversions(n.left.value)):
                cur, protected = n, False
                while id(cur) in par_:
                    cur_p = par_[id(cur)]
                    if isinstance(cur_p, ast.Try) and cur in cur_p.body and any(h.type is None or any(t in unparse(h.type) for t in ('TypeError', 'Exception')) for h in cur_p.handlers):
                        protected = True
                    cur = cur_p
                num_sites.append((f_, n, protected))
            elif isinstance(n, ast.JoinedStr) and any(isinstance(v, ast.FormattedValue) and v.format_spec is not None and
                                                     ''.join(x.value for x in v.format_spec.values if isinstance(x, ast.Constant))[-1:] in tuple('dxXob')
                                                     and (isinstance(v.value, ast.Name) and ('offset' in v.value.id or v.value.id in offset_vars)) for v in n.values):
                cur, protected = n, False
                while id(cur) in par_:
                    cur_p = par_[id(cur)]
                    if isinstance(cur_p, ast.Try) and cur in cur_p.body and any(h.type is None or any(t in unparse(h.type) for t in ('TypeError', 'ValueError', 'Exception')) for h in cur_p.handlers):
                        protected = True
                    cur = cur_p
                num_sites.append((f_, n, protected))
    # Round 9: the same for every other use of an offset that needs an integer -- an index, a
    # slice bound, arithmetic, hex() / range() / chr()
    int_uses = []
    for f_ in str_funcs:
        par_ = {}
        for pn in ast.walk(f_.node):
            for c_ in ast.iter_child_nodes(pn):
                par_[id(c_)] = pn
        for n in ast.walk(f_.node):
            hit = None
            if isinstance(n, ast.Subscript) and any(isinstance(x, ast.Name) and x.id in offset_vars for x in ast.walk(n.slice)):
                hit = 'index / slice bound'
            elif isinstance(n, ast.BinOp) and not isinstance(n.op, ast.Mod) and any(isinstance(x, ast.Name) and x.id in offset_vars for x in (n.left, n.right)) \
                    and id(n) in par_ and not isinstance(par_[id(n)], (ast.Slice, ast.Subscript)):
                hit = 'arithmetic'
            elif isinstance(n, ast.Call) and isinstance(n.func, ast.Name) and n.func.id in ('hex', 'oct', 'bin', 'range', 'chr', 'divmod') \
                    and any(isinstance(x, ast.Name) and x.id in offset_vars for x in n.args):
                hit = n.func.id + '()'
            if hit is None:
                continue
            cur, protected = n, False
            while id(cur) in par_:
                cur_p = par_[id(cur)]
                if isinstance(cur_p, ast.Try) and cur in cur_p.body and any(h.type is None or any(t in unparse(h.type) for t in ('TypeError', 'Exception')) for h in cur_p.handlers):
                    protected = True
                if isinstance(cur_p, (ast.If, ast.IfExp)) and cur is not cur_p.test and 'isinstance' in unparse(cur_p.test) and any(v in unparse(cur_p.test) for v in offset_vars):
                    protected = True
                cur = cur_p
            int_uses.append((f_, n, hit, protected))
    up = repo.cls('Packet').methods.get('unpack')
    validated = False
    if up is not None:
        for n in ast.walk(up.node):
            if isinstance(n, ast.If) and any(isinstance(x, ast.Raise) for x in n.body) and 'isinstance(offset' in unparse(n.test) and 'int' in unparse(n.test):
                validated = True
    for f_, n, protected in num_sites:
        st = stmt_text(n)[:120]
        if protected:
            ctx.holds(rule, f_, st, 'the integer conversion of an offset is protected: an offset that is not an integer is shown as it is', n.lineno)
        elif validated:
            ctx.holds(rule, f_, st, 'Packet.unpack rejects an offset that is not an integer', n.lineno)
        else:
            ctx.violation(rule, f_, st, 'the offset is formatted with an integer conversion, but Packet.unpack(raw, offset) accepts any object as the offset: unpack(raw, offset=None) raises a PacketError whose str() raises TypeError ("%x format: an integer is required")', n.lineno,
                          key='PacketError text: integer conversion of an offset that need not be an integer', witness=True)
    for f_, n, hit, protected in int_uses:
        st = stmt_text(n)[:120]
        if protected:
            ctx.holds(rule, f_, st, 'the use of an offset as an integer (%s) is protected' % hit, n.lineno)
        elif validated:
            ctx.holds(rule, f_, st, 'Packet.unpack rejects an offset that is not an integer', n.lineno)
        else:
            ctx.violation(rule, f_, st, 'the offset is used as an integer (%s), but the offsets in the stack are whatever the fields received -- Packet.unpack(raw, offset) accepts any object, a position computed with a true division is a float: str() of that PacketError raises TypeError' % hit, n.lineno, witness=True)
    # __str__ must return on all paths and contain no raise
    if any(isinstance(n, ast.Raise) for n in ast.walk(strm.node)):
        ctx.violation(rule, strm, 'PacketError.__str__', 'contains a raise statement', strm.node.lineno)
    rets = [n for n in ast.walk(strm.node) if isinstance(n, ast.Return) and n.value is not None]
    if not rets:
        ctx.violation(rule, strm, 'PacketError.__str__', 'does not return a string', strm.node.lineno)


def _looks_like_format(n):
    """a % whose left operand is a string expression containing a literal with conversions"""
    for x in ast.walk(n.left):
        if isinstance(x, ast.Constant) and isinstance(x.value, str) and conversions(x.value):
            return True
    return False


def _is_int_expr(a):
    if isinstance(a, ast.Constant) and isinstance(a.value, int):
        return True
    if isinstance(a, ast.Call) and isinstance(a.func, ast.Name) and a.func.id in ('len', 'int', 'max', 'min'):
        return True
    if isinstance(a, ast.BinOp) and isinstance(a.op, (ast.Add, ast.Sub, ast.Mult, ast.FloorDiv, ast.Mod)):
        return _is_int_expr(a.left) and _is_int_expr(a.right)
    return False


def check_typed_chunks(ctx, rule='R7-typed-chunks'):
    """a value of the wrong type fails inside the field's own pack call: what a pack strategy
    appends is the result of a type-enforcing operation (struct pack, to_bytes, concatenation
    with a bytes object), never the bare packet value -- a str / list chunk is accepted by the
    buffer and only fails in tobytes(), outside every handler"""
    import ast as _ast
    from ..model import pack_strategies
    repo = ctx.repo
    n = 0
    for ci, fi, s in pack_strategies(repo):
        w = repo.walker(max_paths=ctx.max_paths)
        seen = set()
        for p in w.paths(fi.node, cls=ci):
            if p.raises():
                continue
            for e in p.all_effects():
                if e.kind == 'call' and isinstance(e.call.func, _ast.Attribute) and canon(e.call.func.value) == 'fragments' and e.call.func.attr in ('append', 'extend') and e.call.args:
                    v = e.call.args[0]
                    key = (id(e.node), canon(v))
                    if key in seen:
                        continue
                    seen.add(key)
                    n += 1
                    ok, why = typed_chunk(v)
                    st = '[%s] %s: fragments.%s(%s)' % (ci.name, fi.qual, e.call.func.attr, canon(v)[:90])
                    if ok:
                        ctx.holds(rule, fi, st, why, e.lineno)
                    elif ok is False:
                        ctx.violation(rule, fi, st, why, e.lineno)
                    else:
                        ctx.undecided(rule, fi, st, why, e.lineno)
    ctx.unit('appended_chunks', n)


def typed_chunk(v):
    import ast as _ast
    if isinstance(v, _ast.Constant) and isinstance(v.value, bytes):
        return True, 'bytes constant'
    if isinstance(v, _ast.Call):
        f = v.func
        if isinstance(f, _ast.Attribute) and f.attr in ('pack', 'to_bytes', 'encode', 'decode', 'tobytes', 'join'):
            return True, 'result of %s (bytes, raises on a wrong type)' % f.attr
        if isinstance(f, _ast.Name) and f.id in ('bytes', 'StructPack'):
            return True, 'result of %s' % f.id
        if isinstance(f, _ast.Name) and f.id == 'getattr':
            return False, 'the bare packet value reaches the buffer: a str / list / None value is accepted here and only fails in tobytes(), outside the per-field handlers, as a bare TypeError'
    if isinstance(v, _ast.BinOp) and isinstance(v.op, _ast.Add):
        for side in (v.left, v.right):
            if (isinstance(side, _ast.Constant) and isinstance(side.value, bytes)) or (isinstance(side, _ast.Attribute) and canon(side.value) == 'self'):
                return True, 'concatenated with a bytes object of the field (TypeError for a non-bytes value, inside the field call)'
        return None, 'concatenation of two run-time values'
    if isinstance(v, _ast.IfExp):
        a, b = typed_chunk(v.body), typed_chunk(v.orelse)
        for r in (a, b):
            if r[0] is False:
                return r
        return (True, 'both alternatives typed') if a[0] and b[0] else (None, 'an alternative is not classified')
    if isinstance(v, _ast.Subscript):
        return typed_chunk(v.value)
    return None, 'cannot classify the appended value %s' % canon(v)[:60]


def check_packet_pack(ctx, rule='R7-packet-pack'):
    fi = ctx.repo.cls('Packet').methods.get('pack')
    if fi is None:
        raise Undecided('anchor Packet.pack not found')
    ctx.unit('functions')
    from ..model import handlers_of
    tr = handlers_of(fi.node)
    if tr is None:
        ctx.holds(rule, fi, 'Packet.pack', 'no handler: PacketError from pack_impl propagates unchanged', fi.node.lineno)
        return
    for h in tr.handlers:
        st = 'except %s: %s' % (unparse(h.type) if h.type else '<all>', '; '.join(stmt_text(s) for s in h.body))
        last = h.body[-1] if h.body else None
        if isinstance(last, ast.Raise) and (last.exc is None or (isinstance(last.exc, ast.Name) and last.exc.id == h.name)):
            ctx.holds(rule, fi, st, 're-raises the error', h.lineno)
        else:
            ctx.violation(rule, fi, st, 'Packet.pack swallows or replaces the failure', h.lineno)


def check_who_creates(ctx):
    """only the drivers create a PacketError: a field (or anything else below a driver) that
    creates its own makes the driver above it *add* an entry for that same field instead of
    starting the stack -- one level of nesting would show up twice"""
    repo = ctx.repo
    rule = 'R7-one-entry-per-level'
    pk = repo.cls('Packet')
    allowed = {pk.methods[m].id for m in ('pack_impl', 'unpack_impl') if m in pk.methods}
    # a context manager of the package that the drivers run their field loop under is the drivers'
    # handler written as a class: its __exit__ creates the error for the driver
    for m in ('pack_impl', 'unpack_impl'):
        if m in pk.methods:
            for c in ast.walk(pk.methods[m].node):
                if isinstance(c, ast.Call) and isinstance(c.func, ast.Name) and repo.has_cls(c.func.id) and '__exit__' in repo.cls(c.func.id).methods:
                    allowed.add(repo.cls(c.func.id).methods['__exit__'].id)
    sites = 0
    for fi in repo.functions.values():
        if fi.qual.split('.')[-1] in repo.absorbed:
            continue
        nested = [f.node for f in repo.functions.values() if f is not fi and f.file == fi.file and f.qual.startswith(fi.qual + '.')]
        inner = {id(x) for n_ in nested for x in ast.walk(n_)}
        for n in ast.walk(fi.node):
            if id(n) in inner or hasattr(n, '_inl') and getattr(n, '_inl') and False:
                continue
            if isinstance(n, ast.Call) and (call_name(n) or '').split('.')[-1] == 'PacketError' and len(n.args) + len(n.keywords) >= 3:
                sites += 1
                st = stmt_text(n)[:120]
                if fi.id in allowed:
                    ctx.holds(rule, fi, st, 'created by a driver, for the field it was running', n.lineno)
                else:
                    ctx.violation(rule, fi, st, 'a PacketError is created below the drivers: the driver that runs this code adds a second entry for the same field, so the stack no longer has one entry per level of nesting', n.lineno, witness=True)
    for t in repo.templates():
        if t.tree is None:
            continue
        for n in ast.walk(t.tree):
            if isinstance(n, ast.Call) and (call_name(n) or '').split('.')[-1] == 'PacketError' and len(n.args) + len(n.keywords) >= 3:
                sites += 1
                if any(d_ in t.defines() for d_ in ('pack_impl', 'unpack_impl')):
                    ctx.holds(rule, t.func, stmt_text(n)[:120], 'created by a generated driver, for the field it was running', t.lineno)
                else:
                    ctx.violation(rule, t.func, stmt_text(n)[:120], 'a generated block creates its own PacketError below the generated driver', t.lineno, witness=True)
    ctx.floor('PacketError creation sites', sites, 4)


def _roots(func, e, depth=3):
    """the names a value is computed from, followed through the local assignments of the function
    (all of them: a local assigned on both branches of an if contributes both values)"""
    params = {a.arg for a in func.args.args}
    out, todo, seen = set(), [(e, depth)], set()
    while todo:
        x, d = todo.pop()
        for nm in {y.id for y in ast.walk(x) if isinstance(y, ast.Name)} - {'self', 'len', 'str', 'repr'}:
            if nm in seen:
                continue
            seen.add(nm)
            asg = [a for a in ast.walk(func) if isinstance(a, ast.Assign) and any(isinstance(t, ast.Name) and t.id == nm for t in a.targets)]
            if asg and nm not in params and d > 0:
                for a in asg:
                    todo.append((a.value, d - 1))
            else:
                out.add(nm)
    return out


def check_block_names_its_own_run(ctx, rule='R7-name-binding'):
    """Round 9.  the name a generated struct block reports (``name = ...`` before the call) is
    computed from the run *that block* reads or writes: in the generator method that fills the
    block template, the value of the 'name' key is an expression over the method's own run
    parameter -- or over a parameter for which every caller passes something computed from the
    very expression it passes as the run"""
    repo = ctx.repo
    cg = repo.cls('CodeGenerator')
    n = 0
    for mname, fi in sorted(cg.methods.items()):
        ps = [a.arg for a in fi.node.args.args][1:]
        if not ps:
            continue
        run = ps[0]
        for d in ast.walk(fi.node):
            if not isinstance(d, ast.Dict):
                continue
            keys = [k.value for k in d.keys if isinstance(k, ast.Constant)]
            if 'name' not in keys or not ({'fmt', 'lookup_fields'} & set(keys)):
                continue
            v = d.values[keys.index('name')]
            v = _through_local(fi.node, v)
            free = {x.id for x in ast.walk(v) if isinstance(x, ast.Name)} - {'self', 'len', 'str', 'repr'}
            st = '%s: name = %s' % (mname, unparse(v)[:80])
            n += 1
            if free <= {run}:
                if run in free:
                    ctx.holds(rule, fi, st, 'computed from the run this block packs', d.lineno)
                else:
                    ctx.undecided(rule, fi, st, 'the reported name does not depend on the run', d.lineno)
                continue
            other = sorted(free - {run})
            if not all(o in ps for o in other):
                ctx.undecided(rule, fi, st, 'the reported name is computed from %s' % other, d.lineno)
                continue
            # every caller: the argument bound to <other> is computed from the expression bound to <run>
            verdict = True
            for cfi in cg.methods.values():
                for c in ast.walk(cfi.node):
                    if isinstance(c, ast.Call) and isinstance(c.func, ast.Attribute) and c.func.attr == mname and canon(c.func.value) == 'self':
                        bound = dict(zip(ps, c.args))
                        for k_ in c.keywords:
                            if k_.arg:
                                bound[k_.arg] = k_.value
                        if run not in bound or not all(o in bound for o in other):
                            verdict = None if verdict is True else verdict
                            continue
                        rtxt = canon(bound[run])
                        for o in other:
                            src = _through_local(cfi.node, bound[o])
                            names_ = {canon(x) for x in ast.walk(src) if isinstance(x, (ast.Name, ast.Subscript, ast.Attribute))}
                            roots = _roots(cfi.node, src)
                            names_ |= roots
                            if rtxt in names_:
                                continue
                            if roots and isinstance(bound[run], ast.Name) and bound[run].id not in roots:
                                ctx.violation(rule, cfi, '%s: %s(%s, ..., %s=%s)' % (cfi.node.name, mname, rtxt, o, unparse(src)[:50]),
                                              'the block that packs the run %s is labelled with a name computed from %s, another run: a failure inside it is reported under the names (and, with several sub-runs, at the offset) of fields that are not the ones that failed' % (rtxt, sorted(roots)), c.lineno, witness=True)
                                verdict = False
                            elif verdict is True:
                                verdict = None
            if verdict is True:
                ctx.holds(rule, fi, st, 'every caller computes it from the run it passes', d.lineno)
            elif verdict is None:
                ctx.undecided(rule, fi, st, 'cannot see that the callers compute %s from the run they pass' % other, d.lineno)
    ctx.unit('block_names', n)


def check(ctx):
    check_block_names_its_own_run(ctx)
    drivers = check_wrappers(ctx)
    check_who_creates(ctx)
    for d in drivers:
        D.check_cursor_discipline(ctx, 'R7-cursor-at-failure', d, ctx.repo)
        D.check_hooks_wrapped(ctx, 'R7-hooks-inside-try', d)
    # generic loop: name bound by the loop target before each call
    layout = D.fields_tuple_layout(ctx.repo)
    for d in drivers:
        if d.origin == 'generic':
            sh = D.generic_loop_shape(ctx, 'R7-name-binding', d)
            if sh is not None:
                if sh['name_pos'] == layout['name']:
                    ctx.holds('R7-name-binding', d.where, '%s: for %s in ...' % (d.label, ', '.join(sh['names'])), '"name" is rebound to the field name before each call', sh['loop'].lineno)
                else:
                    ctx.violation('R7-name-binding', d.where, '%s: for %s in ...' % (d.label, ', '.join(sh['names'])), '"name" is bound to tuple slot %s; the field name is slot %d' % (sh['name_pos'], layout['name']), sh['loop'].lineno)
        else:
            sh = D.template_loop_shape(ctx, 'R7-name-binding', ctx.repo, d.kind)
            if sh is not None:
                if sh['name_pos'] == layout['name']:
                    ctx.holds('R7-name-binding', sh['template'].func, '%s loop block: %s' % (d.kind, stmt_text(sh['assign'])), '"name" is rebound to the field name before each call', sh['template'].lineno)
                else:
                    ctx.violation('R7-name-binding', sh['template'].func, '%s loop block: %s' % (d.kind, stmt_text(sh['assign'])), '"name" is bound to tuple slot %s; the field name is slot %d' % (sh['name_pos'], layout['name']), sh['template'].lineno)
    check_packet_unpack(ctx, 'R7-packet-unpack')
    # Round 6: the field named by the innermost stack entry is the field whose value failed: every
    # member of a bit run merges its *own* value in its own pack call (C07-d), so a value of the
    # wrong type fails there and not while a later member assembles the run
    from .c07 import check_pack as _bits_pack
    _bits_pack(ctx, ctx.repo.cls('Bits'))
    # ... and the generated handlers can name PacketError (and everything else they use) in every
    # generated variant of the module: an undefined name there is a NameError instead (C15-E)
    from .c15 import check_templates_closed
    check_templates_closed(ctx, ctx.repo)
    check_packet_pack(ctx)
    check_typed_chunks(ctx)
    # (h) a field that cannot be decoded fails inside its own call (strict decode, C04 rule R4):
    # otherwise the failure is attributed to a later field at a later offset
    from .c04 import check as c04_check
    c04_check(ctx)
    # colliding positions on pack: the rejected insert must leave the cursor where the field began
    from .c11 import check as c11_check
    c11_check(ctx, parts=('atomic', 'append'))     # every chunk goes through the collision guards of insert
    check_packet_error_class(ctx)
    ctx.floor('drivers analysed', ctx.units.get('drivers', 0), 4)
    ctx.floor('format sites in PacketError.__str__ and its helpers', ctx.units.get('format_sites', 0), 2)
    ctx.trust(*ASSUMPTIONS[:2])
