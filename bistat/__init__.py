"""bistat -- repository-specific static analysis of bisturi (see /verif/DESIGN.md).

Pure standard library.  Nothing in this package imports or runs bisturi: every
decision is taken from the syntax trees of /repo/bisturi/*.py.
"""


class Undecided(Exception):
    """The analysis cannot follow a construct (anchor vanished, idiom not
    recognised, bound hit).  Reported as ANALYSIS-ERROR, exit 2 -- never as a
    violation of the property and never as a silent pass."""
