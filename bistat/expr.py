"""Expression normalisers: closed, exact decision procedures over tiny languages.

* ``canon(e)``      canonical text of an expression (linear arithmetic normal
                    form, canonical comparisons, ``getattr(x,'a')`` = ``x.a``,
                    bound variables alpha-renamed).
* ``lin(e)``        linear form {atom: coeff} (+ constant under key 1).
* ``literals(e)``   a guard as a list of canonical literals (conjunction split).
* ``residue_mod``   congruence normaliser for pad-to-alignment claims.
* ``or_terms``      bit-algebra flattening for confinement claims.
"""
import ast
import copy
from fractions import Fraction

ARITH = (ast.Add, ast.Sub, ast.Mult)


def parse_expr(src):
    return ast.parse(src, mode='eval').body


def unparse(e):
    try:
        return ast.unparse(e)
    except Exception:                                   # pragma: no cover
        return ast.dump(e)


def is_const(e, value=None):
    if not isinstance(e, ast.Constant):
        return False
    return True if value is None else (e.value == value and type(e.value) is type(value))


def const_num(e):
    """int value of a numeric literal expression (handles unary minus), else None"""
    if isinstance(e, ast.Constant) and type(e.value) in (int,):
        return e.value
    if isinstance(e, ast.UnaryOp) and isinstance(e.op, ast.USub):
        v = const_num(e.operand)
        return None if v is None else -v
    return None


# ---------------------------------------------------------------------------
# linear forms
# ---------------------------------------------------------------------------

def lin(e, atom=None):
    """Linear form of ``e``: dict atom-text -> Fraction, constant under key 1.

    Atoms are maximal sub-expressions that are not +, -, or * by a constant;
    they are themselves canonicalised.  Always succeeds (a non-arithmetic
    expression is a single atom)."""
    atom = atom or canon
    out = {}

    def add(k, c):
        if c == 0:
            return
        out[k] = out.get(k, 0) + c
        if out[k] == 0:
            del out[k]

    def go(n, c):
        v = const_num(n)
        if v is not None:
            add(1, c * v)
        elif isinstance(n, ast.BinOp) and isinstance(n.op, ast.Add):
            go(n.left, c); go(n.right, c)
        elif isinstance(n, ast.BinOp) and isinstance(n.op, ast.Sub):
            go(n.left, c); go(n.right, -c)
        elif isinstance(n, ast.BinOp) and isinstance(n.op, ast.Mult) and const_num(n.left) is not None:
            go(n.right, c * const_num(n.left))
        elif isinstance(n, ast.BinOp) and isinstance(n.op, ast.Mult) and const_num(n.right) is not None:
            go(n.left, c * const_num(n.right))
        elif isinstance(n, ast.UnaryOp) and isinstance(n.op, ast.USub):
            go(n.operand, -c)
        elif isinstance(n, ast.UnaryOp) and isinstance(n.op, ast.UAdd):
            go(n.operand, c)
        else:
            add(atom(n), c)

    go(e, Fraction(1))
    return out


def lin_text(form):
    if not form:
        return '0'
    parts = []
    for k in sorted(form, key=lambda k: (k == 1, str(k))):
        c = form[k]
        if k == 1:
            parts.append(str(c))
        elif c == 1:
            parts.append(k)
        else:
            parts.append('%s*%s' % (c, k))
    return ' + '.join(parts)


def lin_sub(a, b):
    out = dict(a)
    for k, c in b.items():
        out[k] = out.get(k, 0) - c
        if out[k] == 0:
            del out[k]
    return out


def lin_eq(a, b):
    """are two expressions equal as linear forms?"""
    return lin(a) == lin(b)


def lin_diff(a, b):
    """linear form of a - b"""
    return lin_sub(lin(a), lin(b))


# ---------------------------------------------------------------------------
# canonical text
# ---------------------------------------------------------------------------

_CMP_FLIP = {ast.Gt: ast.Lt, ast.GtE: ast.LtE}
_CMP_NEG = {ast.Lt: ast.GtE, ast.LtE: ast.Gt, ast.Gt: ast.LtE, ast.GtE: ast.Lt,
            ast.Eq: ast.NotEq, ast.NotEq: ast.Eq, ast.Is: ast.IsNot,
            ast.IsNot: ast.Is, ast.In: ast.NotIn, ast.NotIn: ast.In}
_CMP_TXT = {ast.Lt: '<', ast.LtE: '<=', ast.Gt: '>', ast.GtE: '>=', ast.Eq: '==',
            ast.NotEq: '!=', ast.Is: 'is', ast.IsNot: 'is not', ast.In: 'in',
            ast.NotIn: 'not in'}
_BIN_TXT = {ast.Mod: '%', ast.FloorDiv: '//', ast.Div: '/', ast.BitAnd: '&',
            ast.BitOr: '|', ast.BitXor: '^', ast.LShift: '<<', ast.RShift: '>>',
            ast.Pow: '**', ast.MatMult: '@', ast.Mult: '*'}
_COMMUT = (ast.BitAnd, ast.BitOr, ast.BitXor, ast.Mult)


def _is_symbolic_const(e):
    return isinstance(e, ast.Constant) and (e.value is None or isinstance(e.value, (str, bytes, bool)))


def negate(e):
    """syntactic negation of a boolean expression (pushes ``not`` inwards)"""
    if isinstance(e, ast.UnaryOp) and isinstance(e.op, ast.Not):
        return e.operand
    if isinstance(e, ast.Compare) and len(e.ops) == 1:
        return ast.Compare(left=e.left, ops=[_CMP_NEG[type(e.ops[0])]()], comparators=e.comparators)
    if isinstance(e, ast.BoolOp):
        op = ast.Or() if isinstance(e.op, ast.And) else ast.And()
        return ast.BoolOp(op=op, values=[negate(v) for v in e.values])
    if isinstance(e, ast.Constant) and isinstance(e.value, bool):
        return ast.Constant(value=not e.value)
    return ast.UnaryOp(op=ast.Not(), operand=e)


class _Canon:
    def __init__(self, rename=None):
        self.rename = dict(rename or {})
        self.bound = {}

    def __call__(self, e):
        return self.c(e)

    def c(self, e):
        m = getattr(self, 'c_' + type(e).__name__, None)
        if m is not None:
            return m(e)
        if isinstance(e, ast.AST):
            return unparse(e)
        return repr(e)

    # -- leaves
    def c_Name(self, e):
        if e.id in self.bound:
            return self.bound[e.id]
        return self.rename.get(e.id, e.id)

    def c_Constant(self, e):
        return repr(e.value)

    def c_Attribute(self, e):
        return '%s.%s' % (self.c(e.value), e.attr)

    def c_Starred(self, e):
        return '*' + self.c(e.value)

    # -- arithmetic
    def _linear(self, e):
        form = lin(e, atom=self.c)
        return lin_text(form)

    def _plinear(self, e):
        """parenthesised linear normal form; a sum that reduces to one atom is that atom"""
        form = lin(e, atom=self.c)
        nz = {k: v for k, v in form.items() if v != 0}
        if len(nz) == 1:
            (k, v), = nz.items()
            if k != 1 and v == 1:
                return k
        return '(%s)' % lin_text(form)

    def c_BinOp(self, e):
        # 'text %s' % 'constant'  and  'a' + 'b'  are the resulting constant
        if isinstance(e.op, (ast.Mod, ast.Add)) and isinstance(e.left, ast.Constant) and isinstance(e.left.value, (str, bytes)):
            r = e.right
            val = None
            if isinstance(r, ast.Constant) and not isinstance(r.value, type(None)):
                val = r.value
            elif isinstance(r, ast.Tuple) and all(isinstance(x, ast.Constant) for x in r.elts):
                val = tuple(x.value for x in r.elts)
            if val is not None:
                try:
                    return repr(e.left.value % val if isinstance(e.op, ast.Mod) else e.left.value + val)
                except (TypeError, ValueError):
                    pass
            if isinstance(e.op, ast.Mod):
                f_ = self._percent_format(e)
                if f_ is not None:
                    return f_
        if isinstance(e.op, (ast.Add, ast.Sub)):
            # bytes / str concatenation is not commutative: keep order when a
            # bytes/str literal or a known sequence operand is present
            if isinstance(e.op, ast.Add) and _seq_concat(e):
                return '(%s ++ %s)' % (self.c(e.left), self.c(e.right))
            return self._plinear(e)
        if isinstance(e.op, ast.Mult) and (const_num(e.left) is not None or const_num(e.right) is not None):
            return self._plinear(e)
        l, r = self.c(e.left), self.c(e.right)
        if isinstance(e.op, _COMMUT):
            l, r = sorted((l, r))
        return '(%s %s %s)' % (l, _BIN_TXT.get(type(e.op), type(e.op).__name__), r)

    def c_UnaryOp(self, e):
        if isinstance(e.op, (ast.USub, ast.UAdd)):
            return '(%s)' % self._linear(e)
        if isinstance(e.op, ast.Not):
            n = negate(e.operand)
            if not (isinstance(n, ast.UnaryOp) and isinstance(n.op, ast.Not)):
                return self.c(n)
            return 'not %s' % self.c(e.operand)
        if isinstance(e.op, ast.Invert):
            return '~%s' % self.c(e.operand)
        return unparse(e)

    def c_Compare(self, e):
        if len(e.ops) != 1:
            # chained comparison -> conjunction
            parts, left = [], e.left
            for op, right in zip(e.ops, e.comparators):
                parts.append(self.c(ast.Compare(left=left, ops=[op], comparators=[right])))
                left = right
            return '(' + ' and '.join(parts) + ')'
        op, a, b = type(e.ops[0]), e.left, e.comparators[0]
        if op in (ast.Is, ast.IsNot, ast.In, ast.NotIn):
            return '(%s %s %s)' % (self.c(a), _CMP_TXT[op], self.c(b))
        if op in (ast.Eq, ast.NotEq) and (_is_symbolic_const(a) or _is_symbolic_const(b)
                                          or _non_arith(a) or _non_arith(b)):
            l, r = sorted((self.c(a), self.c(b)))
            return '(%s %s %s)' % (l, _CMP_TXT[op], r)
        if op in _CMP_FLIP:
            op, a, b = _CMP_FLIP[op], b, a
        form = lin_sub(lin(a, self.c), lin(b, self.c))
        if op in (ast.Eq, ast.NotEq):
            keys = sorted((k for k in form), key=lambda k: (k == 1, str(k)))
            if keys and form[keys[0]] < 0:
                form = {k: -v for k, v in form.items()}
        return '(%s %s 0)' % (lin_text(form), _CMP_TXT[op])

    def c_BoolOp(self, e):
        op = ' and ' if isinstance(e.op, ast.And) else ' or '
        vals = []
        for v in e.values:
            if isinstance(v, ast.BoolOp) and type(v.op) is type(e.op):
                vals.extend(v.values)
            else:
                vals.append(v)
        return '(' + op.join(self.c(v) for v in vals) + ')'

    def c_IfExp(self, e):
        return '(%s if %s else %s)' % (self.c(e.body), self.c(e.test), self.c(e.orelse))

    def c_Subscript(self, e):
        return '%s[%s]' % (self.c(e.value), self.c(e.slice))

    def c_Slice(self, e):
        f = lambda x: '' if x is None else self.c(x)
        s = '%s:%s' % (f(e.lower), f(e.upper))
        if e.step is not None:
            s += ':' + self.c(e.step)
        return s

    def c_Tuple(self, e):
        return '(' + ', '.join(self.c(x) for x in e.elts) + ',)'

    def c_List(self, e):
        return '[' + ', '.join(self.c(x) for x in e.elts) + ']'

    def c_Set(self, e):
        return '{' + ', '.join(sorted(self.c(x) for x in e.elts)) + '}'

    def c_Dict(self, e):
        return '{' + ', '.join('%s: %s' % ('**' if k is None else self.c(k), self.c(v))
                               for k, v in zip(e.keys, e.values)) + '}'

    def c_Call(self, e):
        # getattr(x, 'name') == x.name
        if isinstance(e.func, ast.Name) and e.func.id == 'getattr' and len(e.args) == 2 \
                and not e.keywords and isinstance(e.args[1], ast.Constant) \
                and isinstance(e.args[1].value, str) and e.args[1].value.isidentifier():
            return '%s.%s' % (self.c(e.args[0]), e.args[1].value)
        args = [self.c(a) for a in e.args]
        kws = sorted(('**' + self.c(k.value)) if k.arg is None else '%s=%s' % (k.arg, self.c(k.value))
                     for k in e.keywords)
        return '%s(%s)' % (self.c(e.func), ', '.join(args + kws))

    def c_JoinedStr(self, e):
        # f'a{x}b' and 'a%sb' % x are the same text: both are written fmt('a{}b', x)
        tpl, args = '', []
        for v in e.values:
            if isinstance(v, ast.Constant):
                tpl += str(v.value).replace('{', '{{').replace('}', '}}')
            elif isinstance(v, ast.FormattedValue) and v.format_spec is None and v.conversion in (-1, 115):
                tpl += '{}'
                args.append(self.c(v.value))
            else:
                return 'f' + repr([self.c(x) if not isinstance(x, ast.Constant) else x.value for x in e.values])
        return 'fmt(%r%s)' % (tpl, ''.join(', ' + a for a in args))

    def c_FormattedValue(self, e):
        return '{%s}' % self.c(e.value)

    def _percent_format(self, e):
        """'a%sb' % x  ->  fmt('a{}b', x)  when every conversion is a plain %s"""
        import re as _re
        text = e.left.value
        if not isinstance(text, str):
            return None
        parts = _re.split(r'(%[sdirxXfo%]|%\([a-z_]+\)s|%[0-9.#+\- ]*[sdirxXfo])', text)
        tpl, n = '', 0
        for p_ in parts:
            if p_ == '%s':
                tpl += '{}'
                n += 1
            elif p_ == '%%':
                tpl += '%'
            elif p_.startswith('%') and len(p_) > 1:
                return None
            else:
                tpl += p_.replace('{', '{{').replace('}', '}}')
        if n == 0:
            return None
        args = e.right.elts if isinstance(e.right, ast.Tuple) else [e.right]
        if len(args) != n or isinstance(e.right, ast.Dict):
            return None
        # (a single operand that is a tuple at run time would differ from the f-string: trusted not to be)
        return 'fmt(%r%s)' % (tpl, ''.join(', ' + self.c(a) for a in args))

    # -- binders
    def _bind(self, names):
        saved = dict(self.bound)
        for n in names:
            self.bound[n] = '_v%d' % len(self.bound)
        return saved

    def c_Lambda(self, e):
        a = e.args
        names = [x.arg for x in a.posonlyargs + a.args + a.kwonlyargs]
        if a.vararg: names.append(a.vararg.arg)
        if a.kwarg: names.append(a.kwarg.arg)
        saved = self._bind(names)
        try:
            sig = []
            for x in a.posonlyargs + a.args:
                sig.append(self.bound[x.arg])
            if a.vararg: sig.append('*' + self.bound[a.vararg.arg])
            for x in a.kwonlyargs: sig.append(self.bound[x.arg])
            if a.kwarg: sig.append('**' + self.bound[a.kwarg.arg])
            return '(lambda %s: %s)' % (', '.join(sig), self.c(e.body))
        finally:
            self.bound = saved

    def _comp(self, e, elt_fn, open_, close):
        names = []
        for g in e.generators:
            for n in ast.walk(g.target):
                if isinstance(n, ast.Name):
                    names.append(n.id)
        # generator iterables are evaluated with earlier targets bound
        saved = self._bind(names)
        try:
            gens = []
            for g in e.generators:
                s = 'for %s in %s' % (self.c(g.target), self.c(g.iter))
                for i in g.ifs:
                    s += ' if ' + self.c(i)
                gens.append(s)
            return '%s%s %s%s' % (open_, elt_fn(), ' '.join(gens), close)
        finally:
            self.bound = saved

    def c_ListComp(self, e):
        return self._comp(e, lambda: self.c(e.elt), '[', ']')

    def c_SetComp(self, e):
        return self._comp(e, lambda: self.c(e.elt), '{', '}')

    def c_GeneratorExp(self, e):
        return self._comp(e, lambda: self.c(e.elt), '(', ')')

    def c_DictComp(self, e):
        return self._comp(e, lambda: '%s: %s' % (self.c(e.key), self.c(e.value)), '{', '}')


def _seq_concat(e):
    """is this ``+`` a sequence concatenation (bytes/str/list literal on a side,
    recursively)?  Then it is not commutative and not arithmetic."""
    for side in (e.left, e.right):
        if isinstance(side, ast.Constant) and isinstance(side.value, (bytes, str)):
            return True
        if isinstance(side, (ast.List, ast.Tuple, ast.JoinedStr)):
            return True
        if isinstance(side, ast.BinOp) and isinstance(side.op, ast.Add) and _seq_concat(side):
            return True
        if isinstance(side, ast.BinOp) and isinstance(side.op, ast.Mult) and (
                _seq_const(side.left) or _seq_const(side.right)):
            return True
        if isinstance(side, ast.Call) and isinstance(side.func, ast.Attribute) and side.func.attr in (
                'encode', 'join', 'escape', 'group', 'pack', 'to_bytes'):
            return True
        if isinstance(side, ast.Attribute) and side.attr in ('pattern', 'delimiter_to_be_included'):
            return True
    return False


def _seq_const(e):
    return isinstance(e, ast.Constant) and isinstance(e.value, (bytes, str))


def _non_arith(e):
    return isinstance(e, (ast.Tuple, ast.List, ast.Dict, ast.Set, ast.JoinedStr))


def canon(e, rename=None):
    return _Canon(rename).c(e)


def same(a, b, rename_a=None, rename_b=None):
    return canon(a, rename_a) == canon(b, rename_b)


# ---------------------------------------------------------------------------
# guards as literal sets
# ---------------------------------------------------------------------------

def conj(e):
    """split a boolean expression into its top-level conjuncts"""
    if isinstance(e, ast.BoolOp) and isinstance(e.op, ast.And):
        out = []
        for v in e.values:
            out.extend(conj(v))
        return out
    if isinstance(e, ast.Compare) and len(e.ops) > 1:
        out, left = [], e.left
        for op, right in zip(e.ops, e.comparators):
            out.append(ast.Compare(left=left, ops=[op], comparators=[right]))
            left = right
        return out
    if isinstance(e, ast.UnaryOp) and isinstance(e.op, ast.Not):
        n = negate(e.operand)
        if isinstance(n, ast.BoolOp) and isinstance(n.op, ast.And):
            return conj(n)
        if not (isinstance(n, ast.UnaryOp) and isinstance(n.op, ast.Not)):
            return conj(n) if isinstance(n, ast.Compare) and len(n.ops) > 1 else [n]
    return [e]


def literals(e, rename=None):
    return sorted(canon(x, rename) for x in conj(e))


def cmp_form(e, rename=None):
    """A single comparison as (linear form of lhs-rhs, op) with op in '<','<=','==','!='.
    Returns None if ``e`` is not a single arithmetic comparison."""
    if isinstance(e, ast.UnaryOp) and isinstance(e.op, ast.Not):
        e = negate(e.operand)
    if not (isinstance(e, ast.Compare) and len(e.ops) == 1):
        return None
    op, a, b = type(e.ops[0]), e.left, e.comparators[0]
    if op in _CMP_FLIP:
        op, a, b = _CMP_FLIP[op], b, a
    if op not in (ast.Lt, ast.LtE, ast.Eq, ast.NotEq):
        return None
    c = _Canon(rename)
    form = lin_sub(lin(a, c), lin(b, c))
    return form, _CMP_TXT[op]


# ---------------------------------------------------------------------------
# congruence:  X % a   with X == expected (mod a)
# ---------------------------------------------------------------------------

def residue_mod(x, a_text, rename=None):
    """Reduce the linear form of ``x`` modulo the atom whose canonical text is
    ``a_text``: atoms of the shape ``(T % a)`` are replaced by T, monomials that
    are multiples of ``a`` are dropped.  Returns the reduced linear form."""
    c = _Canon(rename)

    def atom(n):
        return c(n)

    def reduce(n):
        # returns linear form with T % a flattened
        form = {}
        def add(k, v):
            form[k] = form.get(k, 0) + v
            if form[k] == 0:
                del form[k]
        raw = _lin_nodes(n)
        for node, coef in raw:
            if node is None:
                add(1, coef)
            elif isinstance(node, ast.BinOp) and isinstance(node.op, ast.Mod) and c(node.right) == a_text:
                for k, v in reduce(node.left).items():
                    add(k, v * coef)
            else:
                k = c(node)
                if k == a_text:
                    continue                      # multiple of a
                add(k, coef)
        return form

    return reduce(x)


def _lin_nodes(e):
    """like lin() but keeps atom *nodes*: list of (node|None, coeff)"""
    out = []

    def go(n, c):
        v = const_num(n)
        if v is not None:
            out.append((None, c * v))
        elif isinstance(n, ast.BinOp) and isinstance(n.op, ast.Add):
            go(n.left, c); go(n.right, c)
        elif isinstance(n, ast.BinOp) and isinstance(n.op, ast.Sub):
            go(n.left, c); go(n.right, -c)
        elif isinstance(n, ast.BinOp) and isinstance(n.op, ast.Mult) and const_num(n.left) is not None:
            go(n.right, c * const_num(n.left))
        elif isinstance(n, ast.BinOp) and isinstance(n.op, ast.Mult) and const_num(n.right) is not None:
            go(n.left, c * const_num(n.right))
        elif isinstance(n, ast.UnaryOp) and isinstance(n.op, ast.USub):
            go(n.operand, -c)
        else:
            out.append((n, c))

    go(e, Fraction(1))
    return out


# ---------------------------------------------------------------------------
# bit algebra
# ---------------------------------------------------------------------------

def or_terms(e):
    """flatten ``a | b | c`` into its operands"""
    if isinstance(e, ast.BinOp) and isinstance(e.op, ast.BitOr):
        return or_terms(e.left) + or_terms(e.right)
    return [e]


def and_factors(e):
    """flatten ``a & b & c`` into its operands"""
    if isinstance(e, ast.BinOp) and isinstance(e.op, ast.BitAnd):
        return and_factors(e.left) + and_factors(e.right)
    return [e]


# ---------------------------------------------------------------------------
# small tree utilities
# ---------------------------------------------------------------------------

def subst(e, mapping):
    """substitute Name loads by expressions (mapping name -> ast.expr).  Respects
    lambda / comprehension binders."""
    return _Subst(mapping).visit(copy.deepcopy(e))


class _Subst(ast.NodeTransformer):
    def __init__(self, mapping):
        self.mapping = mapping
        self.shadow = []

    def visit_Name(self, n):
        if isinstance(n.ctx, ast.Load) and n.id in self.mapping and not any(n.id in s for s in self.shadow):
            return copy.deepcopy(self.mapping[n.id])
        return n

    def visit_Lambda(self, n):
        a = n.args
        names = {x.arg for x in a.posonlyargs + a.args + a.kwonlyargs}
        if a.vararg: names.add(a.vararg.arg)
        if a.kwarg: names.add(a.kwarg.arg)
        a.defaults = [self.visit(d) for d in a.defaults]
        a.kw_defaults = [self.visit(d) if d is not None else None for d in a.kw_defaults]
        self.shadow.append(names)
        n.body = self.visit(n.body)
        self.shadow.pop()
        return n

    def _comp(self, n, fields):
        names = set()
        for g in n.generators:
            for t in ast.walk(g.target):
                if isinstance(t, ast.Name):
                    names.add(t.id)
        # first iterable is evaluated outside the binder
        first = True
        for g in n.generators:
            if first:
                g.iter = self.visit(g.iter)
                first = False
                self.shadow.append(names)
            else:
                g.iter = self.visit(g.iter)
            g.ifs = [self.visit(i) for i in g.ifs]
        for f in fields:
            setattr(n, f, self.visit(getattr(n, f)))
        self.shadow.pop()
        return n

    def visit_ListComp(self, n): return self._comp(n, ['elt'])
    def visit_SetComp(self, n): return self._comp(n, ['elt'])
    def visit_GeneratorExp(self, n): return self._comp(n, ['elt'])
    def visit_DictComp(self, n): return self._comp(n, ['key', 'value'])


def names_in(e):
    return {n.id for n in ast.walk(e) if isinstance(n, ast.Name)}


def contains(e, pred):
    return any(pred(n) for n in ast.walk(e))


def find_all(e, pred):
    return [n for n in ast.walk(e) if pred(n)]


def attr_chain(e):
    """``a.b.c`` -> ['a','b','c'];  None when the base is not a Name"""
    parts = []
    while isinstance(e, ast.Attribute):
        parts.append(e.attr)
        e = e.value
    if isinstance(e, ast.Name):
        parts.append(e.id)
        return parts[::-1]
    return None


def is_attr(e, base, attr):
    return isinstance(e, ast.Attribute) and e.attr == attr and isinstance(e.value, ast.Name) and e.value.id == base


def call_name(e):
    """dotted name of a call's callee, e.g. 'os.path.exists', 'fragments.append'"""
    if not isinstance(e, ast.Call):
        return None
    ch = attr_chain(e.func)
    return '.'.join(ch) if ch else None


def kwarg(call, name, pos=None, default=None):
    for k in call.keywords:
        if k.arg == name:
            return k.value
    if pos is not None and len(call.args) > pos and not any(isinstance(a, ast.Starred) for a in call.args[:pos + 1]):
        return call.args[pos]
    return default
