"""C06 -- byte-string fields take exactly the declared bytes or stop at the first delimiter.

Path summaries of the Data strategies in the linear normal form:

 (a) strategy selection in Data._compile: every surviving path installs an unpack
     strategy, the kinds it accepts end in ``assert False`` otherwise, and the strategy
     installed under each kind test resolves the size the way that kind requires
     (int -> self.byte_count, Field -> getattr(pkt, that field's name), callable /
     compiled expression -> self.byte_count(pkt=..., raw=..., offset=..., **k));
 (b) sized strategies: store raw[offset:offset+N], return offset+N, under the guard
     len(slice) == N (covers short reads and negative sizes);
 (c) marker strategies: the searched buffer starts at the cursor exactly; it ends at
     offset + window on the windowed path and is open on the other; the search
     primitive is first-occurrence (find + found guard, index, regex search from 0) --
     rfind / rindex / match / fullmatch are violations;
 (d) include / consume arithmetic per flag path (pos = search result, L = len(marker)):
     include            -> value end = return = offset + pos + L   (regex: match end)
     exclude + consume  -> value end = offset + pos, return = offset + pos + L
     exclude + keep     -> return = value end = offset + pos;
 (e) Data.pack emits value + delimiter_to_be_included (value first), and the constructor
     sets the latter to the marker iff it is bytes and excluded.
Which option values select the windowed path ("0 means unbounded") is not decided.

Round 4: on every compile path the search-window attribute ends up holding the configured value
itself (unset / 0: unbounded, n: the next n bytes).

Round 5: (d') the exported EOS constant carries the pattern text the read-to-end path is keyed
on.

Round 6: strictness under python -O (asserts stripped, unbound locals raise); the constructor's
decision tree for derived attributes is known to the delimiter rules; pack does not resize the
value.
Round 7: a kind served by several strategies told apart by a further test of _compile; a delimiter
left out of the value is remembered for pack on that path (e'); a sized read is never rejected by
the cursor position alone; includes the evaluator discipline of C09 (sizes given as expressions).
Round 8: strategies read the field name at call time; includes the sequence language of C08.
Round 9: includes the operator-table rule of C09 (a size written `7 - used` keeps its operands in
the written order: the reflected methods swap them back).
"""
import ast

from .. import Undecided
from ..expr import canon, lin, lin_sub, call_name, unparse, negate, conj
from ..model import strategy_table, raw_slices, has_eq_guard, has_nonneg_guard, has_truthy_guard, stmt_text

EXPLANATION = __doc__
LEVEL_RULE = 'one obligation per (strategy, non-raising path, clause); 5 unpack strategies, their flag paths, Data.pack, Data.__init__'
ASSUMPTIONS = [
    'bytes.find returns the lowest index of the first occurrence or -1; bytes.index raises when absent',
    're.Pattern.search(buffer, 0) returns the leftmost match at or after position 0 of the cut buffer',
]


WINDOW_ATTR = 'self._search_buffer_length'


def window_attr(repo):
    """the attribute Data._compile fills from the search_buffer_length option"""
    comp = repo.cls('Data').methods.get('_compile')
    if comp is not None:
        for n in ast.walk(comp.node):
            if isinstance(n, ast.Assign) and isinstance(n.targets[0], ast.Attribute) and canon(n.value) == "bisturi_conf.get('search_buffer_length')":
                return canon(n.targets[0])
    return WINDOW_ATTR


def gtexts(p):
    out = set()
    for g, pol in p.guards:
        t = g if pol else negate(g)
        for c in conj(t):
            out.add(canon(c))
    return out


def store_of(p, pk='pkt'):
    st = [e for e in p.effects if e.kind == 'setattr' and canon(e.obj) == pk and canon(e.name) == 'self.field_name']
    return st[-1] if st else None


def expected_size(kind):
    if kind == 'int':
        return ast.parse('self.byte_count', mode='eval').body, None
    if kind == 'field':
        return ast.parse('getattr(pkt, self.byte_count.field_name)', mode='eval').body, None
    return None, 'self.byte_count('


def strategy_entry(repo, ci, fi, literal):
    """the strategy of ``ci`` whose unpack is ``fi`` and that _compile installs under ``literal``"""
    cands = [s_ for s_ in repo.strategies(ci) if s_['unpack'] is fi]
    if len(cands) <= 1:
        return cands[0] if cands else None
    hits = [s_ for s_ in cands if any(literal(g) for gs in s_['guard_sets'] for g in gs)]
    return hits[0] if len(hits) == 1 else None


KIND_LITERAL = {
    'int': lambda g: g == 'isinstance(self.byte_count, int)',
    'field': lambda g: g == 'isinstance(self.byte_count, Field)',
    'callable': lambda g: g == 'callable(self.byte_count)' or g.startswith('isinstance(self.byte_count, (UnaryExpr'),
}


def classify_sized(ctx, ci, fi, kind):
    """(b) for one sized strategy; ``kind`` in int / field / callable"""
    repo = ctx.repo
    rule = 'C06-sized-read'
    w = repo.walker(inline_depth=ctx.depth, max_paths=ctx.max_paths)
    entry = strategy_entry(repo, ci, fi, KIND_LITERAL[kind])
    if entry is not None:
        # helpers chosen by _compile for this kind (e.g. a size resolver) are followed
        w.const_heap = repo.strategy_consts(entry, keep=('byte_count', 'until_marker', 'field_name', 'include_delimiter', 'consume_delimiter', 'default'))
    paths = w.paths(fi.node, cls=ci)
    ctx.unit('paths', len(paths))
    good = 0
    import re as _re
    flagged = set()
    for p in paths:
        if not p.raises():
            continue
        # a sized read fails only when fewer bytes than the declared size remain: a rejection decided
        # by the cursor and the input length alone (whatever the size) also rejects the empty value
        # at the very end of the input
        for g0, pol in p.guards:
            g = g0 if pol else negate(g0)
            t = canon(g)
            if 'len(raw)' not in t or t in flagged:
                continue
            mm = _re.match(r'^\((.*) (<=|<) 0\)$', t)
            if not mm:
                continue
            try:
                f_ = lin(ast.parse(mm.group(1), mode='eval').body)
            except SyntaxError:
                continue
            keys = {str(k_) for k_ in f_ if k_ != 1 and str(k_) not in ('1',)}
            if keys and keys <= {'len(raw)', 'offset'}:
                flagged.add(t)
                ctx.violation(rule, fi, '[%s] %s: raise when %s' % (kind, fi.qual, t), 'the read is rejected by the position of the cursor alone, whatever the declared size: a field of size 0 at the very end of the input (an empty value) fails instead of yielding b\'\'', fi.node.lineno, clause='b', witness=True)
    for p in paths:
        if p.raises():
            continue
        s = store_of(p)
        label = '[%s] %s' % (kind, fi.qual)
        if s is None:
            ctx.violation(rule, fi, label, 'a non-raising path does not store the value', fi.node.lineno, clause='b')
            continue
        v = s.value
        if not (isinstance(v, ast.Subscript) and isinstance(v.slice, ast.Slice) and isinstance(v.value, ast.Name) and v.value.id == 'raw' and v.slice.step is None):
            ctx.violation(rule, fi, '%s stores %s' % (label, canon(v)), 'the stored value is not a plain slice of the input', s.lineno, clause='b')
            continue
        lo, hi = v.slice.lower, v.slice.upper
        if lo is None or canon(lo) != 'offset':
            ctx.violation(rule, fi, '%s stores %s' % (label, canon(v)), 'the slice does not start at the cursor', s.lineno, clause='b')
            continue
        if hi is None:
            ctx.violation(rule, fi, '%s stores %s' % (label, canon(v)), 'a sized field takes everything to the end of the input', s.lineno, clause='b')
            continue
        n_form = lin_sub(lin(hi), lin(lo))
        want, prefix = expected_size(kind)
        okN = False
        if want is not None:
            okN = n_form == lin(want)
        else:
            okN = len(n_form) == 1 and list(n_form.values())[0] == 1 and str(list(n_form)[0]).startswith(prefix) and \
                all(x in str(list(n_form)[0]) for x in ('pkt=pkt', 'raw=raw', 'offset=offset', '**k'))
        st = '%s: store raw[offset:offset+N], N = %s' % (label, ' + '.join('%s*%s' % (c, k) for k, c in n_form.items()))
        if not okN:
            ctx.violation(rule, fi, st, 'the number of bytes taken is not the declared size (%s)' % (canon(want) if want is not None else 'self.byte_count(pkt=pkt, raw=raw, offset=offset, **k)'), s.lineno, clause='b')
            continue
        r = p.ret()
        if r is None or lin(r) != lin(hi):
            ctx.violation(rule, fi, st + '; return %s' % (canon(r) if r is not None else None), 'the cursor returned is not the end of the slice taken', s.lineno, clause='b')
            continue
        len_e = ast.Call(func=ast.Name(id='len', ctx=ast.Load()), args=[v], keywords=[])
        n_e = ast.BinOp(left=hi, op=ast.Sub(), right=lo)
        if not has_eq_guard(p, len_e, n_e):
            ctx.violation(rule, fi, st, 'no exact-length guard on the path: a short read or a negative size is accepted', s.lineno, clause='b')
            continue
        good += 1
        ctx.holds(rule, fi, st + '; return offset+N; guard len == N', 'exactly the declared bytes', s.lineno, clause='b')
    if not good:
        ctx.violation(rule, fi, '[%s] %s' % (kind, fi.qual), 'no path takes the declared number of bytes', fi.node.lineno, clause='b')


def search_call(e):
    """the search primitive inside an expression: (node, kind) kind in find/index/rfind/rindex/search/match/fullmatch"""
    for n in ast.walk(e):
        if isinstance(n, ast.Call) and isinstance(n.func, ast.Attribute) and n.func.attr in ('find', 'index', 'rfind', 'rindex', 'search', 'match', 'fullmatch', 'finditer', 'findall'):
            recv = n.func.value
            # buffer.find(marker)  /  marker_regex.search(buffer, 0)
            return n
    return None


def classify_marker(ctx, ci, fi, regex, facts=()):
    repo = ctx.repo
    w = repo.walker(inline_depth=ctx.depth, max_paths=ctx.max_paths, split_ifexp=True)
    w.strip_asserts = True          # a "delimiter found" test written as an assert is no test under python -O
    w.unbound_raises = True
    w.const_heap = dict(repo.ctor_consts(ci))      # e.g. one "fate of the delimiter" constant derived from the two flags
    entry = strategy_entry(repo, ci, fi, (lambda g: g == "hasattr(self.until_marker, 'search')") if regex else (lambda g: g == 'isinstance(self.until_marker, bytes)'))
    if entry is not None:
        # a locator chosen by _compile for this kind of marker is followed
        w.const_heap = repo.strategy_consts(entry, keep=('byte_count', 'until_marker', 'field_name', 'include_delimiter', 'consume_delimiter', 'default',
                                                         'delimiter_to_be_included', window_attr(repo).split('.', 1)[-1]))
    paths = w.paths(fi.node, cls=ci)
    ctx.unit('paths', len(paths))
    rule_c, rule_d = 'C06-marker-search', 'C06-include-consume'
    nflag = 0
    seen_window, seen_open = False, False
    n_shortcut = n_live = 0
    for p in paths:
        if p.raises():
            continue
        n_live += 1
        from ..model import path_facts
        gt = list(gtexts(p)) + list(facts) + sorted(path_facts(p))     # facts: what _compile tested before installing this strategy; conjuncts of compound tests
        s = store_of(p)
        label = '[%s] %s' % ('regex' if regex else 'bytes', fi.qual)
        if s is None:
            ctx.violation(rule_d, fi, label, 'a non-raising path does not store the value', fi.node.lineno, clause='d')
            continue
        v = s.value
        if not (isinstance(v, ast.Subscript) and isinstance(v.slice, ast.Slice) and isinstance(v.value, ast.Name) and v.value.id == 'raw'
                and v.slice.lower is not None and canon(v.slice.lower) == 'offset'):
            ctx.violation(rule_d, fi, '%s stores %s' % (label, canon(v)[:100]), 'the stored value is not a slice of the input starting at the cursor', s.lineno, clause='d')
            continue
        hi = v.slice.upper
        r = p.ret()
        # a delimiter left out of the value is what pack emits after the value: it is remembered
        # by this path, or it is the bytes marker the constructor already keeps for pack
        is_shortcut = regex and any('self.until_marker.pattern' in g and "b'$'" in g and '==' in g for g in gt)
        if 'not self.include_delimiter' in gt and not is_shortcut:
            dst = [e for e in p.effects if e.kind == 'store_attr' and canon(e.obj) == 'self' and e.name == 'delimiter_to_be_included']
            if dst:
                dv = dst[-1].value
                found = canon(dv) == 'self.until_marker' if not regex else (isinstance(dv, ast.Call) and isinstance(dv.func, ast.Attribute) and dv.func.attr == 'group'
                                                                            and search_call(dv.func.value) is not None and not dv.args) or canon(dv) == 'self.until_marker'
                if found:
                    ctx.holds('C06-pack-reemits', fi, '%s self.delimiter_to_be_included = %s' % (label, canon(dv)[:80]), 'the delimiter left out of the value is remembered for pack', dst[-1].lineno, clause='e')
                elif isinstance(dv, ast.Constant):
                    ctx.violation('C06-pack-reemits', fi, '%s self.delimiter_to_be_included = %s' % (label, canon(dv)[:80]), 'a delimiter that is left out of the value and consumed is replaced by a constant: pack does not emit the bytes that were parsed', dst[-1].lineno, clause='e', witness=True)
                else:
                    ctx.undecided('C06-pack-reemits', fi, '%s self.delimiter_to_be_included = %s' % (label, canon(dv)[:80]), 'cannot see that what is remembered for pack is the delimiter found', dst[-1].lineno, clause='e')
            elif regex:
                ctx.violation('C06-pack-reemits', fi, '%s [delimiter excluded]' % label, 'the delimiter matched by a pattern marker is left out of the value and not remembered: the constructor keeps b\'\' for pattern markers, so pack emits the value without the delimiter that was parsed', s.lineno, clause='e', witness=True)
        # read-to-end shortcut
        if regex and any('self.until_marker.pattern' in g and "b'$'" in g and '==' in g for g in gt):
            st = '%s [$ shortcut] value raw[offset:%s], return %s' % (label, canon(hi) if hi is not None else '', canon(r))
            if hi is not None and lin(hi) == {'len(raw)': 1} and r is not None and lin(r) == {'len(raw)': 1}:
                ctx.holds(rule_d, fi, st, 'end-of-string marker: takes everything, cursor at the end', s.lineno, clause='d')
            elif hi is None and r is not None and lin(r) == {'len(raw)': 1}:
                ctx.holds(rule_d, fi, st, 'end-of-string marker: takes everything, cursor at the end', s.lineno, clause='d')
            else:
                ctx.violation(rule_d, fi, st, 'the end-of-string shortcut does not take exactly the rest of the input', s.lineno, clause='d')
            n_shortcut += 1
            continue
        if hi is None:
            ctx.violation(rule_d, fi, '%s stores raw[offset:]' % label, 'a delimited field takes everything to the end of the input', s.lineno, clause='d')
            continue
        sc = search_call(hi) or (search_call(r) if r is not None else None)
        if sc is None:
            ctx.violation(rule_c, fi, '%s value end %s' % (label, canon(hi)[:100]), 'the end of the value is not derived from a search for the delimiter', s.lineno, clause='c')
            continue
        meth = sc.func.attr
        # ---- (c) primitive and buffer
        if regex:
            buf = sc.args[0] if sc.args else None
            start = sc.args[1] if len(sc.args) > 1 else None
            okprim = meth == 'search'
            found = has_truthy_guard(p, sc)
        else:
            buf = sc.func.value
            start = sc.args[1] if len(sc.args) > 1 else None
            okprim = meth in ('find', 'index')
            found = meth == 'index' or has_nonneg_guard(p, sc)
        stc = '%s search %s' % (label, canon(sc)[:120])
        if not okprim and regex and meth in ('find', 'index'):
            # a pattern marker served by a literal search: right only if _compile established that
            # the pattern is a literal and replaced the marker by it -- not followed
            ctx.undecided(rule_c, fi, stc, 'a pattern marker is searched with bytes.%s: cannot see that the pattern can only match itself' % meth, s.lineno, clause='c')
            seen_window = seen_open = True
            continue
        if not okprim:
            ctx.violation(rule_c, fi, stc, '%s is not a first-occurrence search at or after the cursor' % meth, s.lineno, clause='c')
            continue
        if not (isinstance(buf, ast.Subscript) and isinstance(buf.slice, ast.Slice) and isinstance(buf.value, ast.Name) and buf.value.id == 'raw'
                and buf.slice.lower is not None and canon(buf.slice.lower) == 'offset'):
            if isinstance(buf, ast.Name) and buf.id == 'raw' and start is not None and canon(start) == 'offset' and not regex:
                ctx.undecided(rule_c, fi, stc, 'search on raw with a start index: positions are absolute, arithmetic not modelled', s.lineno, clause='c')
            else:
                ctx.violation(rule_c, fi, stc, 'the searched buffer is not the input cut at the cursor (raw[offset:...])', s.lineno, clause='c')
            continue
        if regex and start is not None and not (isinstance(start, ast.Constant) and start.value == 0):
            ctx.violation(rule_c, fi, stc, 'the regex search does not start at position 0 of the cut buffer', s.lineno, clause='c')
            continue
        if not found:
            ctx.violation(rule_c, fi, stc, 'the search result is used without a "found" guard: a missing delimiter is not an error', s.lineno, clause='c')
            continue
        windowed = buf.slice.upper is not None
        if windowed:
            wform = lin_sub(lin(buf.slice.upper), lin(buf.slice.lower))
            WA = window_attr(repo)
            if wform != {WA: 1}:
                ctx.violation(rule_c, fi, stc, 'the search window is not offset + search_buffer_length', s.lineno, clause='c')
                continue
            if WA not in gt:
                ctx.violation(rule_c, fi, stc, 'the windowed search is not guarded by the configured window', s.lineno, clause='c')
                continue
            seen_window = True
        else:
            seen_open = True
        ctx.holds(rule_c, fi, stc, 'first occurrence in raw[offset:%s], found-guard on the path' % ('offset+window' if windowed else ''), s.lineno, clause='c')
        # ---- (d) arithmetic
        inc = 'self.include_delimiter' in gt
        exc = 'not self.include_delimiter' in gt
        cons = 'self.consume_delimiter' in gt
        keep = 'not self.consume_delimiter' in gt
        if not (inc or exc):
            ctx.undecided(rule_d, fi, label + ' path [%s]' % '; '.join(sorted(gt))[:160], 'the path does not decide include_delimiter', s.lineno, clause='d')
            continue
        if regex:
            pos_start = canon(ast.Call(func=ast.Attribute(value=sc, attr='start', ctx=ast.Load()), args=[], keywords=[]))
            pos_end = canon(ast.Call(func=ast.Attribute(value=sc, attr='end', ctx=ast.Load()), args=[], keywords=[]))
            end_incl = {'offset': 1, pos_end: 1}
            end_excl = {'offset': 1, pos_start: 1}
            after = {'offset': 1, pos_end: 1}
        else:
            marker = sc.args[0] if sc.args else None
            pos = canon(sc)
            L = 'len(%s)' % canon(marker) if marker is not None else '?'
            end_incl = {'offset': 1, pos: 1, L: 1}
            end_excl = {'offset': 1, pos: 1}
            after = {'offset': 1, pos: 1, L: 1}
            if marker is None or canon(marker) != 'self.until_marker':
                ctx.violation(rule_c, fi, stc, 'the searched marker is not the declared until_marker', s.lineno, clause='c')
                continue
        vh, rv = lin(hi), (lin(r) if r is not None else None)
        nflag += 1
        flags = 'include' if inc else ('exclude+consume' if cons else 'exclude+keep' if keep else 'exclude')
        st = '%s [%s%s] value end %s, return %s' % (label, flags, ', windowed' if windowed else '', lin_show(vh), lin_show(rv))
        if inc:
            ok = vh == end_incl and rv == end_incl
            want = 'value end = return = offset + pos + len(delimiter)'
        elif cons:
            ok = vh == end_excl and rv == after
            want = 'value end = offset + pos, return = offset + pos + len(delimiter)'
        elif keep:
            ok = vh == end_excl and rv == end_excl
            want = 'return = value end = offset + pos'
        else:
            ok = False
            want = 'the path never consults consume_delimiter: both "consume" (return past the delimiter) and "keep" (return = value end) must be possible'
        if ok:
            ctx.holds(rule_d, fi, st, want, s.lineno, clause='d')
        elif ok is False:
            ctx.violation(rule_d, fi, st, 'expected ' + want, s.lineno, clause='d')
        else:
            ctx.undecided(rule_d, fi, st, want, s.lineno, clause='d')
    if n_live and n_shortcut == n_live:
        pass        # a strategy that serves the end-of-string marker only: nothing is searched
    elif not (seen_window and seen_open):
        ctx.violation(rule_c, fi, '[%s] %s' % ('regex' if regex else 'bytes', fi.qual),
                      'expected both a windowed search path (search_buffer_length set) and an unbounded one; found windowed=%s open=%s' % (seen_window, seen_open), fi.node.lineno, clause='c')
    return nflag


def lin_show(f):
    if f is None:
        return 'None'
    return ' + '.join(('%s' % k if c == 1 else '%s*%s' % (c, k)) for k, c in sorted(f.items(), key=lambda kv: str(kv[0])))[:160]


def check_selection(ctx):
    repo = ctx.repo
    rule = 'C06-strategy-selection'
    ci = repo.cls('Data')
    comp = ci.methods.get('_compile')
    if comp is None:
        raise Undecided('anchor Data._compile not found')
    w = repo.walker()
    paths = w.paths(comp.node, cls=ci)
    kinds = {}
    extra = {}
    for p in paths:
        gt = gtexts(p)
        if p.raises():
            continue
        assigned = [e for e in p.effects if e.kind == 'store_attr' and canon(e.obj) == 'self' and e.name == 'unpack']
        label = 'path [%s]' % '; '.join(sorted(g for g in gt if 'byte_count' in g or 'until_marker' in g))
        if not assigned:
            ctx.violation(rule, comp, label, 'a surviving path of Data._compile installs no unpack strategy (the placeholder raises NotImplementedError at parse time)', comp.node.lineno, clause='a')
            continue
        target = assigned[-1].value.attr if isinstance(assigned[-1].value, ast.Attribute) else None
        if 'isinstance(self.byte_count, int)' in gt:
            k = 'int'
        elif 'isinstance(self.byte_count, Field)' in gt:
            k = 'field'
        elif 'callable(self.byte_count)' in gt:
            k = 'callable'
        elif any('isinstance(self.byte_count, (UnaryExpr' in g for g in gt):
            k = 'expression'
            comp_store = [e for e in p.effects if e.kind == 'store_attr' and canon(e.obj) == 'self' and e.name == 'byte_count'
                          and call_name(e.value) == 'compile_expr_into_callable']
            if not comp_store:
                ctx.violation(rule, comp, label, 'a field expression given as the size is not compiled into a callable', comp.node.lineno, clause='a')
        elif 'isinstance(self.until_marker, bytes)' in gt:
            k = 'bytes-marker'
        elif "hasattr(self.until_marker, 'search')" in gt:
            k = 'regex-marker'
        elif any(g.startswith('not isinstance(self.until_marker') or g.startswith('not hasattr(self.until_marker') or g.startswith('not callable(self.byte_count') for g in gt) \
                and not any(g.startswith(('isinstance(', 'hasattr(', 'callable(')) for g in gt):
            ctx.violation(rule, comp, label, 'a size / marker of an unsupported kind silently selects %s instead of being rejected' % target, comp.node.lineno, clause='a')
            continue
        else:
            ctx.undecided(rule, comp, label, 'cannot tell which kind of size / marker selects %s' % target, comp.node.lineno, clause='a')
            continue
        kinds.setdefault(k, set()).add(target)
        # further tests on the same path (beyond the kind tests) that tell strategies of one kind apart
        extra.setdefault((k, target), []).append(frozenset(g for g in gt if not _is_kind_test(g)))
    # the search window is the class-level option
    win = [e for p in paths for e in p.effects if e.kind == 'store_attr' and canon(e.obj) == 'self' and canon(e.value) == "bisturi_conf.get('search_buffer_length')"]
    global WINDOW_ATTR
    if win:
        WINDOW_ATTR = 'self.' + win[0].name
        ctx.holds(rule, comp, "self.<window> = bisturi_conf.get('search_buffer_length')", 'the configured search window', win[0].lineno, clause='a')
        # ... and it stays what was configured (0 / None: unbounded; n: the first n bytes)
        altered = {}
        for p in paths:
            if p.raises():
                continue
            last = [e for e in p.effects if e.kind == 'store_attr' and canon(e.obj) == 'self' and e.name == win[0].name]
            if last and canon(last[-1].value) != "bisturi_conf.get('search_buffer_length')":
                altered.setdefault(canon(last[-1].value), last[-1])
        for t, e in sorted(altered.items()):
            ctx.violation(rule, comp, '%s = %s' % (WINDOW_ATTR, t[:120]), 'the configured search window is replaced by another value: the documented meaning of the option (unset / 0: search everything, n: only the next n bytes) no longer holds', e.lineno, clause='a', witness=True)
    else:
        ctx.violation(rule, comp, 'search window', "no attribute is filled from the class option search_buffer_length: the configured search window is ignored", comp.node.lineno, clause='a')
    want = {'int', 'field', 'callable', 'expression', 'bytes-marker', 'regex-marker'}
    missing = want - set(kinds)
    if missing:
        ctx.violation(rule, comp, 'kinds handled: %s' % sorted(kinds), 'Data._compile no longer handles %s' % sorted(missing), comp.node.lineno, clause='a')
    # assert False on the other kinds
    bad_end = [p for p in paths if p.raises() and call_name(p.end[1]) == 'AssertionError']
    if len(bad_end) >= 2:
        ctx.holds(rule, comp, 'unsupported kinds -> assert False', 'both selection chains end in assert False', comp.node.lineno, clause='a')
    else:
        ctx.violation(rule, comp, 'unsupported kinds', 'an unsupported size / marker kind is silently accepted (no assert False at the end of the chain)', comp.node.lineno, clause='a')
    multi = {}
    for k, targets in sorted(kinds.items()):
        if len(targets) != 1:
            # one kind served by several strategies: each is checked under the further tests that select it
            split = []
            for t in sorted(targets):
                sets = extra.get((k, t), [])
                common = frozenset.intersection(*sets) if sets else frozenset()
                split.append((t, sorted(common)))
            if None not in targets and all(c for _, c in split) and k in ('bytes-marker', 'regex-marker'):
                multi[k] = split
                ctx.holds(rule, comp, '%s -> %s' % (k, ['%s if %s' % (t, ' and '.join(c)[:80]) for t, c in split]), 'kind split over strategies by further tests; each is checked under its tests', comp.node.lineno, clause='a')
            else:
                ctx.undecided(rule, comp, '%s -> %s' % (k, sorted(map(str, targets))), 'one kind selects several strategies and the rule cannot tell what tells them apart', comp.node.lineno, clause='a')
        else:
            ctx.holds(rule, comp, '%s -> %s' % (k, sorted(targets)[0]), 'kind selects one strategy', comp.node.lineno, clause='a')
    out = {k: sorted(v)[0] for k, v in kinds.items() if len(v) == 1}
    out['__multi__'] = multi
    return out


def _is_kind_test(g):
    g = g[4:] if g.startswith('not ') else g
    return g.startswith(('isinstance(self.byte_count', 'isinstance(self.until_marker', 'hasattr(self.until_marker', 'callable(self.byte_count',
                         'self.byte_count is', 'self.until_marker is'))


def check_pack_and_ctor(ctx):
    repo = ctx.repo
    ci = repo.cls('Data')
    pk = ci.methods.get('pack')
    init = ci.methods.get('__init__')
    rule = 'C06-pack-reemits'
    w = repo.walker()
    for p in w.paths(pk.node, cls=ci):
        if p.raises():
            ctx.violation(rule, pk, 'Data.pack', 'pack raises on a path', pk.node.lineno, clause='e')
            continue
        apps = p.calls(lambda e: isinstance(e.call.func, ast.Attribute) and e.call.func.attr in ('append', 'extend', 'insert') and canon(e.call.func.value) == 'fragments')
        if len(apps) != 1 or apps[0].call.func.attr != 'append':
            ctx.violation(rule, pk, 'Data.pack: %s' % [a.text() for a in apps], 'pack does not append exactly one chunk at the cursor', pk.node.lineno, clause='e')
            continue
        v = apps[0].call.args[0]
        st = apps[0].text()
        if isinstance(v, ast.BinOp) and isinstance(v.op, ast.Add) and canon(v.left) == 'getattr(pkt, self.field_name)'.replace('getattr(pkt, self.field_name)', canon(ast.parse('getattr(pkt, self.field_name)', mode='eval').body)) \
                and canon(v.right) == 'self.delimiter_to_be_included':
            ctx.holds(rule, pk, st, 'value followed by the excluded delimiter', apps[0].lineno, clause='e')
        else:
            # the value cut or padded to a size computed while packing: what was found is named
            resized = [x for x in ast.walk(v) if (isinstance(x, ast.Call) and isinstance(x.func, ast.Attribute) and x.func.attr in ('ljust', 'rjust', 'center', 'zfill'))
                       or (isinstance(x, ast.Subscript) and isinstance(x.slice, ast.Slice) and any(isinstance(y, ast.Call) for y in ast.walk(x.slice)))]
            reads_value = any(canon(x) == canon(ast.parse('getattr(pkt, self.field_name)', mode='eval').body) for x in ast.walk(v))
            if resized and reads_value:
                ctx.violation(rule, pk, st, 'pack cuts / pads the value to a size it computes while packing: a size that was evaluated on the packet as parsed so far is evaluated again on the complete packet, so the bytes emitted are not the bytes parsed', apps[0].lineno, clause='e', witness=True)
            else:
                ctx.violation(rule, pk, st, 'pack must emit the value followed by delimiter_to_be_included (in that order)', apps[0].lineno, clause='e')
    # constructor: on every path, the delimiter pack re-emits is the marker iff the marker is a
    # bytes string that is left out of the value; otherwise it is empty
    names = [x.arg for x in init.node.args.args]
    seen_marker = seen_empty = False
    wi = repo.walker(max_paths=ctx.max_paths, split_ifexp=True)
    for p in wi.paths(init.node, cls=ci):
        if p.raises():
            continue
        st_ = [e for e in p.effects if e.kind == 'store_attr' and canon(e.obj) == 'self' and e.name == 'delimiter_to_be_included']
        from ..model import path_facts
        gt = set(gtexts(p)) | set(path_facts(p))          # the conjuncts of compound tests are facts too
        label = 'Data.__init__ path [%s]' % '; '.join(sorted(g for g in gt if 'until_marker' in g or 'include_delimiter' in g))[:160]
        if not st_:
            ctx.violation(rule, init, label, 'delimiter_to_be_included is never initialised', init.node.lineno, clause='e')
            continue
        v = canon(st_[-1].value)
        is_bytes = any(g in gt for g in ('isinstance(until_marker, bytes)', 'isinstance(self.until_marker, bytes)'))
        excluded = any(g in gt for g in ('not include_delimiter', 'not self.include_delimiter'))
        if is_bytes and excluded:
            if v in ('until_marker', 'self.until_marker'):
                seen_marker = True
                ctx.holds(rule, init, label + ' -> the marker', 'a bytes marker left out of the value is emitted again by pack', st_[-1].lineno, clause='e')
            else:
                ctx.violation(rule, init, label + ' -> %s' % v, 'the delimiter re-emitted by pack must be the marker iff it is a bytes marker that is excluded from the value', st_[-1].lineno, clause='e')
        else:
            if v == "b''":
                seen_empty = True
                ctx.holds(rule, init, label + " -> b''", 'nothing to re-emit (included in the value, a pattern, or no marker)', st_[-1].lineno, clause='e')
            else:
                ctx.violation(rule, init, label + ' -> %s' % v, 'the delimiter re-emitted by pack must be the marker iff it is a bytes marker that is excluded from the value', st_[-1].lineno, clause='e')
    if not (seen_marker and seen_empty):
        ctx.violation(rule, init, 'Data.__init__', 'expected a path that keeps the marker for pack and a path that keeps nothing (marker kept: %s, empty: %s)' % (seen_marker, seen_empty), init.node.lineno, clause='e')
    # constructor contract: consume_delimiter False with include True rejected; flags stored unchanged
    for attr, param in (('include_delimiter', 'include_delimiter'), ('consume_delimiter', 'consume_delimiter'), ('byte_count', 'byte_count'), ('until_marker', 'until_marker')):
        ok = False
        for n in ast.walk(init.node):
            if isinstance(n, ast.Assign) and isinstance(n.targets[0], ast.Attribute) and n.targets[0].attr == attr and isinstance(n.value, ast.Name) and n.value.id == param:
                ok = True
        if ok:
            ctx.holds('C06-ctor-flags', init, 'self.%s = %s' % (attr, param), 'declared option stored unchanged', init.node.lineno, clause='e')
        else:
            ctx.violation('C06-ctor-flags', init, 'self.%s' % attr, 'the declared %s is not stored unchanged' % param, init.node.lineno, clause='e')


def check_eos_constant(ctx):
    """(d') the exported end-of-string marker takes the read-to-end path: that path is keyed on the
    pattern text, so the pattern of the EOS constant must be that text.  Otherwise EOS is searched
    by the regex engine inside the search window and the field ends where the window ends"""
    repo = ctx.repo
    rule = 'C06-delimited-read'
    ci = repo.cls('Data')
    eos = None
    for st in repo.modules[ci.module]['tree'].body:
        if isinstance(st, ast.Assign) and len(st.targets) == 1 and isinstance(st.targets[0], ast.Name) and st.targets[0].id == 'EOS':
            eos = st
    if eos is None:
        return
    v = eos.value
    pat = v.args[0] if isinstance(v, ast.Call) and (call_name(v) or '').split('.')[-1] == 'compile' and v.args else None
    keys = set()
    for fi in ci.methods.values():
        for n in ast.walk(fi.node):
            if isinstance(n, ast.Compare) and len(n.ops) == 1 and isinstance(n.ops[0], (ast.Eq, ast.NotEq)):
                for a, b in ((n.left, n.comparators[0]), (n.comparators[0], n.left)):
                    if isinstance(a, ast.Attribute) and a.attr == 'pattern' and isinstance(b, ast.Constant) and isinstance(b.value, bytes):
                        keys.add(b.value)
    where = (ci.file, '<module>')
    stt = 'EOS = %s; read-to-end path keyed on pattern %s' % (canon(v), sorted(keys))
    if not isinstance(pat, ast.Constant) or not keys:
        ctx.undecided(rule, where, stt, 'cannot relate the EOS constant to the read-to-end path', eos.lineno, clause='d')
    elif pat.value in keys:
        ctx.holds(rule, where, stt, 'the exported marker takes the read-to-end path (no search, no window)', eos.lineno, clause='d')
    else:
        ctx.violation(rule, where, stt, 'the EOS marker no longer takes the read-to-end path: it is searched inside the search window, so with a search_buffer_length the field silently ends where the window ends', eos.lineno, clause='d', witness=True)


def check(ctx):
    repo = ctx.repo
    ci = repo.cls('Data')
    from ..model import check_strategies_read_the_name_at_call_time
    check_strategies_read_the_name_at_call_time(ctx, 'C06-name-at-call-time')
    check_eos_constant(ctx)
    sel = check_selection(ctx)
    done = set()
    nflag = 0
    for kind in ('int', 'field', 'callable', 'expression'):
        t = sel.get(kind)
        if t is None:
            continue
        fi = repo.method(ci, t)
        if fi is None:
            ctx.undecided('C06-sized-read', (ci.file, 'Data'), t, 'strategy method not found')
            continue
        key = (fi.id, 'callable' if kind == 'expression' else kind)
        if key in done:
            continue
        done.add(key)
        ctx.unit('strategies')
        classify_sized(ctx, ci, fi, 'callable' if kind == 'expression' else kind)
    for kind, regex in (('bytes-marker', False), ('regex-marker', True)):
        targets = [(sel[kind], ())] if sel.get(kind) is not None else sel.get('__multi__', {}).get(kind, [])
        for t, facts in targets:
            fi = repo.method(ci, t)
            if fi is None:
                ctx.undecided('C06-marker-search', (ci.file, 'Data'), t, 'strategy method not found')
                continue
            ctx.unit('strategies')
            nflag += classify_marker(ctx, ci, fi, regex, facts)
    check_pack_and_ctor(ctx)
    # the generated code reads constant-size byte strings as strictly as the field loop
    from .c04 import check_templates_decode
    check_templates_decode(ctx, 'C06-generated-decode-strict')
    ctx.unit('flag_paths', nflag)
    ctx.floor('Data unpack strategies analysed', ctx.units.get('strategies', 0), 5)
    ctx.floor('(include, consume, window) paths', nflag, 10)
    from ..model import check_conf_plumbing
    check_conf_plumbing(ctx, 'C06-conf-plumbing', 'search_buffer_length')
    # a size given as a field expression is the value of that expression: the evaluator applies
    # every operator to its operands in the declared order (C09 d)
    from .c09 import check_exec
    check_exec(ctx)
    # Round 9: ... and the expression object built for ``7 - used`` holds its operands in the
    # written order: the reflected methods swap them back (C09 a, b)
    from .c09 import check_tables
    try:
        check_tables(ctx)
    except Undecided as e:
        ctx.undecided('R9-operator-dunders', ('bisturi/deferred.py', '_defer_operations_of'), 'operator tables', str(e), 0)
    # Round 8: Data(n).repeated(count) is count sized reads, one per element (C08 sequence language)
    from .c08 import check_sequence_unpack
    try:
        check_sequence_unpack(ctx, repo.cls('Sequence'))
    except Undecided as e:
        ctx.undecided('C08-sequence-unpack', ('bisturi/structural_fields.py', 'Sequence'), 'Sequence.unpack', str(e), 0)

    ctx.trust(*ASSUMPTIONS)
