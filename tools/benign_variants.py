#!/usr/bin/env python3
"""usage: benign_variants.py <roundtrip|rename|both|private|all> <outdir>   (see bistat/variants.py)"""
import os
import sys
sys.path.insert(0, os.path.dirname(os.path.dirname(os.path.abspath(__file__))))
from bistat.variants import main
main()
