#!/usr/bin/env python3
"""Writes the prompts of one round of independent sub-agents.

usage: mkprompts.py <round number>

For every property two prompts are written, /tmp/prompts<R>b/<id>.txt (a maintainer who refactors
without changing behaviour) and /tmp/prompts<R>s/<id>.txt (a developer who introduces a subtle
regression).  The sub-agent gets the property text and a scratch clone; nothing from /verif.  What
earlier rounds already produced for the property is summarised (from the notes kept with the
changes) so that the new changes are different ones.
"""
import json
import os
import sys

VERIF = os.path.dirname(os.path.dirname(os.path.abspath(__file__)))
R = sys.argv[1]
props = [json.loads(l) for l in open(os.path.join(VERIF, 'properties.jsonl'))]


def earlier(kind, pid, limit=260):
    out = []
    d = os.path.join(VERIF, kind)
    for name in sorted(os.listdir(d)):
        mp = os.path.join(d, name, 'meta.json')
        if not os.path.exists(mp):
            continue
        if json.load(open(mp)).get('property') != pid:
            continue
        notes = os.path.join(d, name, 'notes.md')
        files = set()
        for l in open(os.path.join(d, name, 'patch.diff')):
            if l.startswith('+++ b/'):
                files.add(l[6:].strip())
        text = ' '.join(open(notes).read().split())[:limit] if os.path.exists(notes) else ''
        if not text:
            m = json.load(open(mp))
            text = str(m.get('breaks') or m.get('summary') or '')[:limit]
        out.append('  - %s: %s' % (', '.join(sorted(files)), text))
    return out


BENIGN = '''You are helping to evaluate a verification tool. This time you play a careful maintainer who REFACTORS code WITHOUT changing behaviour. The tool under evaluation must stay silent on your changes; we want to find out whether it raises false alarms.

Repository: a scratch git clone of the Python library "bisturi" (a declarative binary packet parser/packer) at {wt} . Work ONLY inside {wt} and write your deliverables to {out} . Never touch /repo or /verif (do not read /verif either). The library code is in {wt}/bisturi/ ; docs are in {wt}/docs ; the existing tests are in {wt}/tests .

How to run things (the library is also installed elsewhere, so ALWAYS set PYTHONPATH to the clone):
  - existing test suite:  {base}/run_tests.sh {wt}      (must still report "40 passed")
  - your own scripts:     cd {out} && PYTHONPATH={wt} PYTHONDONTWRITEBYTECODE=1 /venv/bin/python digest1.py
  Note: packet classes must be defined in a real .py file (not via python -c / stdin), because the library reads the class source with inspect. Use `git -C {wt} checkout -- .` to return to the pristine tree (do not use git stash). Do not kill processes you did not start.

The behavioural property whose implementation you refactor (it must KEEP holding exactly as before):

  {pid} -- {title}
  Statement: {statement}

First find the code that implements this property (read the library). Then produce THREE different, independent, BEHAVIOUR-PRESERVING refactorings of that code (each on its own, starting from the pristine tree), of the kind a maintainer really does, and non-trivial. Earlier volunteers already did the following refactorings for this property -- yours must be DIFFERENT in kind and, where possible, in place:
{earlier}

Flavours to choose from (pick ones not in the list above): table-driven dispatch instead of if-chains (or the reverse); changing loop forms (while <-> for, index <-> iterator, flag variable <-> break/return, recursion <-> iteration); changing a data representation (tuple <-> small class / namedtuple / dataclass, list <-> deque, flag <-> sentinel object, dict <-> two lists, two booleans <-> one enum-like constant); merging two sibling functions into one with a parameter, or splitting one function by mode; moving a computation between declaration/compile time and run time when that is observably identical (caching a derived constant in an attribute, precomputing a table); using standard-library helpers (itertools, functools.partial / lru-free helpers, operator.attrgetter/itemgetter/methodcaller, contextlib, bisect, struct helpers); inverting conditions / De Morgan / merging nested ifs; replacing try/except by test-before-use (or the reverse) where provably equivalent; reordering independent statements; replacing string building idioms (join vs +=, % vs format vs f-string, bytes vs bytearray); moving code between a base class and its subclasses, or between a method and a module-level function; introducing or removing a local alias / a property / a context manager; replacing inheritance hooks by composition or the reverse; converting a generator to a list-building function or the reverse. Each refactoring should touch 10-60 lines and at least two of the three should change the STRUCTURE of the code that the property depends on, not only names or messages. Do not change any observable behaviour: same results, same exceptions (PacketError vs other, same failing field/offset), same generated-code behaviour, same cache-file behaviour.

For each refactoring N (1..3) write into {out}/ :
  - patchN.diff   : output of `git -C {wt} diff` for that refactoring alone (must apply with `git apply` to the pristine tree),
  - digestN.py    : a deterministic program that exercises the refactored code through the public API on MANY inputs (valid, truncated, corrupted, boundary values, the unusual declarations relevant to the property), and prints ONE line: a sha256 hex digest of all observed results (values, packed bytes, exception classes and PacketError stacks/offsets). It must print exactly the same digest on the pristine tree and on the refactored tree, and must exit 0. Use a fixed random seed; do not include memory addresses, timings or temporary paths in what is hashed.
  - notesN.md     : 5-10 lines: what you restructured and why behaviour is unchanged; the commands you ran and the two identical digests.
Verify yourself: tests pass with the patch; digestN.py prints the same line with and without the patch. Leave the clone pristine when you finish. In your final answer list, for each refactoring, one line: files/functions and the kind of refactoring.
'''

SEEDED = '''You are helping to evaluate a verification tool by playing the role of a developer who introduces a subtle regression.

Repository: a scratch git clone of the Python library "bisturi" (a declarative binary packet parser/packer) at {wt} . Work ONLY inside {wt} and write your deliverables to {out} . Never touch /repo or /verif (do not read /verif either). The library code is in {wt}/bisturi/ ; docs are in {wt}/docs and {wt}/README.md ; the existing tests are in {wt}/tests .

How to run things (the library is also installed elsewhere, so ALWAYS set PYTHONPATH to the clone):
  - existing test suite:  {base}/run_tests.sh {wt}      (must still report "40 passed")
  - your own scripts:     cd {out} && PYTHONPATH={wt} PYTHONDONTWRITEBYTECODE=1 /venv/bin/python demo1.py
  Note: packet classes must be defined in a real .py file (not via python -c / stdin), because the library reads the class source with inspect. Use `git -C {wt} checkout -- .` to return to the pristine tree (do not use git stash). Do not kill processes you did not start.

The behavioural property you must break:

  {pid} -- {title}
  Statement: {statement}
  Quantifier: {quant}

Other developers already tried the following changes -- yours must be DIFFERENT from all of them (different function and/or a different mechanism; do not merely vary these):
{earlier}

Your task: produce up to THREE different, independent changes to the library source under {wt}/bisturi/ (each change on its own, starting from the pristine tree). Each change must
  1. break the property above (some input / history / schedule / configuration now violates the statement),
  2. still compile, and still pass the existing test suite unchanged (40 passed),
  3. be REALISTIC: the kind of small edit a developer could make by mistake or as a plausible "optimisation", "cleanup", "refactoring" or "feature" (1-20 changed lines is typical); no obviously malicious code, no special-casing of magic values,
  4. need something SPECIFIC to manifest -- a particular interleaving, a crash or fault at a particular point, a multi-step sequence of operations, an unusual input or declaration -- not something ordinary use would expose at once,
  5. at least one of your changes should consist of TWO cooperating edits at different sites (different functions or files) that each look fine alone; at least one should touch code that is NOT the most obvious place for this property (a helper, a constructor, the class builder, the code generator, a sibling implementation ...); at least one should be written in the style of a refactoring (control flow restructured, a helper extracted, a loop form changed) that is ALMOST behaviour preserving.

For each change N (1..3) write into {out}/ :
  - patchN.diff  : output of `git -C {wt} diff` for that change alone (must apply with `git apply` to the pristine tree),
  - demoN.py     : a small self-contained program that exits with status 0 on the pristine tree and with a NON-ZERO status when patchN is applied, demonstrating the property violation through the library's public API,
  - notesN.md    : 5-10 lines: what the change is, why it breaks the property, what is needed for it to manifest, and the exact commands you ran with their results.
Verify all of it yourself: tests pass with the patch, demo fails with the patch and passes without. Leave the clone pristine when you finish. In your final answer list, for each change, one line: file/function changed and the idea. If you cannot find three, deliver as many as you can.
'''

for kind, tpl, sub in (('b', BENIGN, 'benign'), ('s', SEEDED, 'seeded')):
    base = '/tmp/wt%s%s' % (R, kind)
    pd = '/tmp/prompts%s%s' % (R, kind)
    os.makedirs(pd, exist_ok=True)
    for p in props:
        pid = p['id']
        e = earlier(sub, pid)
        text = tpl.format(wt='%s/%s' % (base, pid), out='%s-out/%s' % (base, pid), base=base, pid=pid, title=p['title'], statement=p['statement'],
                          quant=p.get('quantifier', {}).get('text', ''), earlier='\n'.join(e) if e else '  (none yet)')
        with open(os.path.join(pd, pid + '.txt'), 'w') as f:
            f.write(text)
print('prompts written for round', R)
