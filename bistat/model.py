"""Facts about bisturi derived from the repository and shared by several rules."""
import ast

from . import Undecided
from .expr import canon, unparse, call_name, lin, lin_sub, cmp_form, negate, conj


def is_placeholder(fi):
    """body is (docstring +) ``raise NotImplementedError(...)``"""
    body = [s for s in fi.node.body if not (isinstance(s, ast.Expr) and isinstance(s.value, ast.Constant))]
    if len(body) != 1 or not isinstance(body[0], ast.Raise) or body[0].exc is None:
        return False
    e = body[0].exc
    name = e.func if isinstance(e, ast.Call) else e
    return isinstance(name, ast.Name) and name.id == 'NotImplementedError'


def strategy_table(repo):
    """{class name: [strategy dict]} for every Field subclass (Field itself excluded)"""
    out = {}
    for ci in repo.field_classes():
        if ci.name == 'Field':
            continue
        out[ci.name] = (ci, repo.strategies(ci))
    return out


def unpack_strategies(repo, include_noop=True):
    """unique (ClassInfo, FuncInfo) of every function that can sit behind .unpack"""
    seen, out = set(), []
    for name, (ci, strats) in strategy_table(repo).items():
        for s in strats:
            fi = s['unpack']
            if fi is None:
                raise Undecided('%s has no unpack implementation' % name)
            if is_placeholder(fi):
                raise Undecided('%s: placeholder %s survives a _compile path (guards %s)' % (name, fi.qual, s['guards']))
            if (ci.name, fi.id) in seen:
                continue
            seen.add((ci.name, fi.id))
            out.append((ci, fi, s))
    return out


def pack_strategies(repo):
    seen, out = set(), []
    for name, (ci, strats) in strategy_table(repo).items():
        for s in strats:
            fi = s['pack']
            if fi is None:
                raise Undecided('%s has no pack implementation' % name)
            if is_placeholder(fi):
                raise Undecided('%s: placeholder %s survives a _compile path' % (name, fi.qual))
            if (ci.name, fi.id) in seen:
                continue
            seen.add((ci.name, fi.id))
            out.append((ci, fi, s))
    return out


def strategy_pairs(repo):
    """co-installed (unpack, pack) pairs: [(ClassInfo, unpack FuncInfo, pack FuncInfo, strategy)]"""
    seen, out = set(), []
    for name, (ci, strats) in strategy_table(repo).items():
        for s in strats:
            key = (ci.name, s['unpack'].id if s['unpack'] else None, s['pack'].id if s['pack'] else None)
            if key in seen:
                continue
            seen.add(key)
            out.append((ci, s['unpack'], s['pack'], s))
    return out


def raw_slices(e, base='raw'):
    """all ``raw[lo:hi]`` sub-expressions (outermost slices of the input buffer)"""
    out = []
    for n in ast.walk(e):
        if isinstance(n, ast.Subscript) and isinstance(n.slice, ast.Slice) \
                and isinstance(n.value, ast.Name) and n.value.id == base:
            out.append(n)
    return out


def raw_uses(e, base='raw'):
    """every occurrence of the Name ``raw`` with its parent node"""
    out = []
    for parent in ast.walk(e):
        for child in ast.iter_child_nodes(parent):
            if isinstance(child, ast.Name) and child.id == base:
                out.append((parent, child))
    return out


def path_literals(path):
    """guards of a path as (linear form, op) for arithmetic literals and canonical
    text for all: returns (list[(form, op)], set[text])"""
    forms, texts = [], set()
    for g, pol in path.guards:
        e = g if pol else negate(g)
        for c in conj(e):
            texts.add(canon(c))
            cf = cmp_form(c)
            if cf is not None:
                forms.append(cf)
    return forms, texts


def has_eq_guard(path, a, b):
    """does the path carry the guard  a == b  (as linear forms)?"""
    want = lin_sub(lin(a), lin(b))
    neg = {k: -v for k, v in want.items()}
    forms, _ = path_literals(path)
    for form, op in forms:
        if op == '==' and (form == want or form == neg):
            return True
    return False


def has_nonneg_guard(path, a):
    """does the path carry  a >= 0  (or a > -1, or a != -1 for find results)?"""
    forms, _ = path_literals(path)
    la = lin(a)
    for form, op in forms:
        # -a <= 0
        if op == '<=' and form == {k: -v for k, v in la.items()}:
            return True
        # -a - 1 < 0   i.e.  a > -1
        m = {k: -v for k, v in la.items()}
        m[1] = m.get(1, 0) - 1
        if op == '<' and form == m:
            return True
        # a != -1
        p = dict(la); p[1] = p.get(1, 0) + 1
        if op == '!=' and (form == p or form == {k: -v for k, v in p.items()}):
            return True
    return False


def has_truthy_guard(path, e):
    t = canon(e)
    _, texts = path_literals(path)
    return t in texts or ('(%s is not None)' % t) in texts


def class_attr_sources(repo, ci, attr):
    """expressions assigned to ``self.<attr>`` anywhere in the class (and bases):
    list of (FuncInfo, value expr)"""
    out = []
    for c in repo.mro(ci):
        for fi in c.methods.values():
            for n in ast.walk(fi.node):
                if isinstance(n, ast.Assign):
                    for t in n.targets:
                        tt = t.elts if isinstance(t, (ast.Tuple, ast.List)) else [t]
                        vv = n.value.elts if isinstance(t, (ast.Tuple, ast.List)) and isinstance(n.value, (ast.Tuple, ast.List)) and len(n.value.elts) == len(tt) else [n.value] * len(tt)
                        for x, v in zip(tt, vv):
                            if isinstance(x, ast.Attribute) and x.attr == attr and isinstance(x.value, ast.Name) and x.value.id == 'self':
                                out.append((fi, v))
    return out


def stmt_text(node):
    """normalised statement text: unparsed from the AST (layout / comments dropped)"""
    try:
        s = ast.unparse(node)
    except Exception:
        s = ast.dump(node)
    s = ' '.join(s.split())
    return s if len(s) <= 300 else s[:297] + '...'


def handlers_of(func_node):
    """the (first) top-level try statement of a driver"""
    for s in func_node.body:
        if isinstance(s, ast.Try):
            return s
    return None


# ---------------------------------------------------------------------------
# definite assignment of the field's own attribute (R11)
# ---------------------------------------------------------------------------

def packet_param(fi, kind):
    """name of the packet parameter of an init / unpack / pack implementation"""
    args = [a.arg for a in fi.node.args.args]
    if len(args) >= 2:
        return args[1]
    return 'pkt'


def stores_own_name(repo, ci, fi, depth=3, max_paths=4096):
    """for every non-raising path of ``fi`` (helpers inlined): does it store the
    attribute named ``self.field_name`` on the packet?  returns list of
    (path, how) with how in {'direct', 'delegated', None}"""
    w = repo.walker(inline_depth=depth, max_paths=max_paths)
    pk = packet_param(fi, None)
    out = []
    for p in w.paths(fi.node, cls=ci):
        if p.raises():
            continue
        how = None
        renamed = set()
        for e in p.all_effects():
            if e.kind == 'setattr' and canon(e.obj) == pk and canon(e.name) == 'self.field_name' and not e.cond:
                how = how or 'direct'
            elif e.kind == 'store_attr' and e.name == 'field_name' and canon(e.value) == 'self.field_name':
                renamed.add(canon(e.obj))
            elif e.kind == 'call' and isinstance(e.call.func, ast.Attribute) and e.call.func.attr in ('init', 'unpack', 'unpack_impl') \
                    and canon(e.call.func.value) in renamed and not e.cond:
                how = how or 'delegated'
        # a loop body store does not count as definite (the loop may run zero times)
        if how == 'direct':
            direct_top = any(e.kind == 'setattr' and canon(e.obj) == pk and canon(e.name) == 'self.field_name' and not e.cond for e in p.effects)
            deleg_top = any(e.kind == 'call' and isinstance(e.call.func, ast.Attribute) and e.call.func.attr in ('init', 'unpack') and canon(e.call.func.value) in renamed for e in p.effects)
            if not direct_top and not deleg_top:
                how = None
        out.append((p, how))
    return out
