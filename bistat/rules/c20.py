"""C20 -- packet equality is structural and total.

Rule family R11 (definite assignment of field attributes) + shape of __eq__/__repr__:

 (a) Packet.__eq__: a path guarded by ``not isinstance(other, self.__class__)`` returns
     False; the loop covers all of get_fields() (no slice/filter/break), compares the
     same name on self and other, returns False on the first difference; True is
     returned only after the loop;
 (b) no __ne__ / __hash__ override in Packet contradicts it (Python derives != from ==);
 (d) init / unpack agreement: for every field class, init and every unpack strategy either both
     assign the field's own name on all paths or both never do (a built packet and the packet
     parsed from its bytes carry the same attributes);
 (c) totality: every attribute read that __eq__ / __repr__ perform for each
     get_fields() entry is either read with a default, or the name is assigned on every
     path of ``init`` and of every unpack strategy of every field class that can appear
     in get_fields() (Move pseudo-fields, Em, Bkpt and the embed no-op strategy included).

Round 4: a cached tuple of field names is resolved through the class builder; the no-sharing
rules of C19 / C13 (what init stores is the keyword or a deep copy of the default).

Round 5: __eq__ walking __slots__ (scratch slots, descriptor flags); Packet.__str__ / __format__
must be total because __repr__ formats nested packets with them.

Round 6: Packet.unpack stores nothing on the new packet (parsed == built); a field value as the
bare right operand of a %-format; __eq__ / __repr__ found through the MRO.
Round 7: (no new rule; the normal form removes record / callable-object spellings before the rules).
Round 8: (no new rule).
"""
import ast

from .. import Undecided
from ..expr import canon, lin, cmp_form, negate, call_name, unparse
from ..model import strategy_table, stores_own_name, stmt_text, is_placeholder

EXPLANATION = __doc__
LEVEL_RULE = 'one obligation per clause of __eq__/__repr__ and, for undefaulted reads, per (reader, field class, init | unpack strategy)'
ASSUMPTIONS = [
    'Python 3 derives __ne__ from __eq__ unless the class overrides it',
    'comparison / repr of user value types may themselves raise: not decided',
    'getattr(obj, name, default) never raises AttributeError',
]


def read_sites(func_node, loop_var_names):
    """getattr reads inside a loop body: (call node, object name, name expr, defaulted)"""
    out = []
    for n in ast.walk(func_node):
        if isinstance(n, ast.Call) and isinstance(n.func, ast.Name) and n.func.id == 'getattr' and len(n.args) >= 2:
            if isinstance(n.args[1], ast.Name) and n.args[1].id in loop_var_names and isinstance(n.args[0], ast.Name):
                out.append((n, n.args[0].id, n.args[1].id, len(n.args) >= 3 or any(k.arg == 'default' for k in n.keywords)))
    return out


EMBED_EXCEPTION = ('Ref', 'Field.unpack_noop')   # embed=True is documented as experimental: the prototype copy
#                                                  stored by init is never parsed (C01 excludes embed as well)


def check_init_unpack_agree(ctx):
    """a name that init stores but unpack never writes (or the reverse) makes a built packet
    differ from the packet parsed from its own bytes although all value-bearing fields agree"""
    repo = ctx.repo
    rule = 'R11-init-unpack-agree'
    table = strategy_table(repo)
    for cname, (ci, strats) in sorted(table.items()):
        init = repo.method(ci, 'init')
        if init is None:
            continue
        ri = stores_own_name(repo, ci, init, depth=ctx.depth, max_paths=ctx.max_paths)
        init_all = bool(ri) and all(h is not None for _, h in ri)
        init_none = all(h is None for _, h in ri)
        seen = set()
        for s in strats:
            u = s['unpack']
            if u is None or u.id in seen or is_placeholder(u):
                continue
            seen.add(u.id)
            ru = stores_own_name(repo, ci, u, depth=ctx.depth, max_paths=ctx.max_paths)
            up_all = bool(ru) and all(h is not None for _, h in ru)
            up_none = all(h is None for _, h in ru)
            st = '[%s] init %s stores its own name on %s paths; unpack %s on %s paths' % (
                cname, init.qual, 'all' if init_all else 'no' if init_none else 'some', u.qual, 'all' if up_all else 'no' if up_none else 'some')
            if (cname, u.qual) == EMBED_EXCEPTION:
                ctx.holds(rule, u, st, 'triaged exception: embed=True is experimental and excluded', u.node.lineno)
            elif (init_all and up_all) or (init_none and up_none):
                ctx.holds(rule, u, st, 'built and parsed packets carry the same attributes', u.node.lineno)
            else:
                ctx.violation(rule, u, st, 'a packet built with the constructor and the packet parsed from its bytes differ in this attribute although every value-bearing field is equal: they compare unequal', u.node.lineno)


def field_loop(fi):
    loops = [n for n in ast.walk(fi.node) if isinstance(n, ast.For) and 'get_fields' in unparse(n.iter)]
    # the loop must be reachable (not after an unconditional raise)
    return loops


def reachable_loops(fi):
    out = []
    dead = False
    for s in fi.node.body:
        if dead:
            break
        for n in ast.walk(s):
            if isinstance(n, ast.For) and ('get_fields' in unparse(n.iter) or 'fields' in unparse(n.iter)):
                out.append(n)
        if isinstance(s, (ast.Raise, ast.Return)):
            dead = True
    return out


def check_eq_shape(ctx, pk, eq):
    rule = 'R11-eq-shape'
    repo = ctx.repo
    slf, oth = [a.arg for a in eq.node.args.args][:2]
    w = repo.walker()
    paths = w.paths(eq.node, cls=pk)
    ctx.unit('paths', len(paths))
    inst = ('isinstance(%s, %s.__class__)' % (oth, slf), 'isinstance(%s, type(%s))' % (oth, slf))
    neg_paths = [p for p in paths if any(('not ' + t) in p.guard_texts() for t in inst)]
    combined = [p for p in paths if p.end[0] == 'return' and result_kind(p.ret(), known_of(p), slf, oth, p) == 'INST&ALL']
    if not neg_paths and combined:
        ctx.holds(rule, eq, 'isinstance(other, self.__class__) and <all fields equal>', 'class test is part of the result', eq.node.lineno)
    elif not neg_paths:
        ctx.violation(rule, eq, 'isinstance guard', 'no path tests isinstance(other, self.__class__): packets of different classes can compare equal or the comparison can raise', eq.node.lineno)
    else:
        ok = True
        for p in neg_paths:
            r = p.ret()
            known = known_of(p)
            if not (p.end[0] == 'return' and result_kind(r, known, slf, oth, p) == 'F'):
                ok = ctx.violation(rule, eq, 'not isinstance(other, self.__class__) -> %s' % p.describe()['end'], 'a non-instance must compare unequal (return False)', eq.node.lineno)
            if p.calls(lambda e: call_name(e.call) not in ('isinstance', 'type')):
                ok = ctx.violation(rule, eq, 'not isinstance(other, self.__class__) path', 'fields are read before the class test', eq.node.lineno)
        if ok:
            ctx.holds(rule, eq, 'not isinstance(other, self.__class__) -> return False', 'class test first', eq.node.lineno)
    # the main path: loop + return True
    main = [p for p in paths if p not in neg_paths]
    for p in main:
        loops = [e for e in p.effects if e.kind == 'loop']
        label = 'path [%s]' % '; '.join(p.guard_texts())
        if p.end[0] == 'return' and isinstance(p.ret(), ast.Constant) and p.ret().value is True:
            if len(loops) != 1:
                ctx.violation(rule, eq, label, 'True is returned without comparing the fields in a loop over get_fields()', eq.node.lineno)
                continue
            lp = loops[0]
            # loop must precede the return (it does, effects are ordered) and iterate all fields
            it = canon(lp.sub['iter'])
            tgt = lp.sub['target']
            item = '<item of %d>' % lp.sub['phi']
            if it not in ('%s.get_fields()' % slf, '%s.__class__.get_fields()' % slf, 'type(%s).get_fields()' % slf):
                if 'get_fields()' in it:
                    # a part / a filtered view of the field table: that is what is wrong
                    ctx.violation(rule, eq, 'for ... in %s' % it, 'the comparison does not cover the full get_fields() list', lp.lineno, witness=True)
                    continue
                kind, what = names_source(ctx.repo, lp.sub['iter'], slf)
                if kind == 'filtered':
                    ctx.violation(rule, eq, 'for ... in %s' % it, 'the comparison does not cover the full get_fields() list: %s' % what, lp.lineno, witness=True)
                    continue
                if kind != 'all' or not isinstance(tgt, ast.Name):
                    ctx.undecided(rule, eq, 'for ... in %s' % it, 'the comparison walks something that is not the get_fields() list: cannot see that it names every field', lp.lineno)
                    continue
                name_e = item
            else:
                if not (isinstance(tgt, ast.Tuple) and len(tgt.elts) == 4):
                    ctx.undecided(rule, eq, 'for %s in %s' % (unparse(tgt), it), 'loop target is not a 4-tuple', lp.lineno)
                    continue
                name_e = '%s[0]' % item
            body = lp.sub['body']
            diff_paths, ok = 0, True
            for bp in body:
                if bp.end[0] in ('break', 'continue'):
                    ok = ctx.violation(rule, eq, 'loop body path [%s] ends in %s' % ('; '.join(bp.guard_texts()), bp.end[0]), 'the field loop can stop or skip early', lp.lineno)
                elif bp.end[0] == 'return':
                    r = bp.end[1]
                    if not (isinstance(r, ast.Constant) and r.value is False):
                        ok = ctx.violation(rule, eq, 'loop body returns %s' % canon(r), 'inside the loop only "return False" on a difference is allowed (an early "return True" skips the remaining fields)', lp.lineno)
                        continue
                    # guard: read(self, name) != read(other, name)
                    if not bp.guards:
                        ok = ctx.violation(rule, eq, 'loop body', 'returns False unconditionally', lp.lineno)
                        continue
                    g, pol = bp.guards[-1]
                    t = g if pol else negate(g)
                    if is_diff_test(t, slf, oth, name_e):
                        diff_paths += 1
                    else:
                        ok = ctx.violation(rule, eq, 'return False under %s' % canon(t), 'the difference test does not compare the same field of self and other', lp.lineno)
                elif bp.end[0] == 'raise':
                    ok = ctx.violation(rule, eq, 'loop body raises', '__eq__ must not raise', lp.lineno)
            if ok and diff_paths >= 1:
                ctx.holds(rule, eq, 'for name,... in self.get_fields(): if getattr(self, name) != getattr(other, name): return False; return True',
                          'all fields, same name on both sides, False on first difference, True only after the loop', lp.lineno)
            elif ok:
                ctx.violation(rule, eq, 'loop over get_fields()', 'the loop never returns False: differing packets compare equal', lp.lineno)
        elif p.end[0] == 'raise':
            ctx.violation(rule, eq, label, '__eq__ raises on a path', eq.node.lineno)
        elif p.end[0] == 'return' and not isinstance(p.ret(), ast.Constant):
            if any('<in loop' in t for t in p.guard_texts()):
                continue
            known = known_of(p)
            kind = result_kind(p.ret(), known, slf, oth, p)
            tested = any(t in known for t in inst)
            if (kind == 'ALL' and tested and any(known.get(t) for t in inst)) or (kind == 'INST&ALL' and not tested):
                ctx.holds(rule, eq, label + ' -> %s' % canon(p.ret())[:120], 'true exactly when every field of get_fields() reads equal on both packets (same name, same default)', eq.node.lineno)
            elif kind in ('T', 'INST') or (kind == 'ALL' and not tested):
                ctx.violation(rule, eq, label + ' -> %s' % canon(p.ret())[:120], 'the result does not depend on %s' % ('the fields' if kind != 'ALL' else 'the class of the other object'), eq.node.lineno)
            elif kind == 'F':
                ctx.violation(rule, eq, label + ' -> %s' % canon(p.ret())[:120], 'packets of the same class always compare unequal on this path', eq.node.lineno)
            elif _walks_slots(repo, pk, p.ret()):
                ctx.violation(rule, eq, label + ' -> %s' % canon(p.ret())[:120], 'the comparison walks __slots__, which the class builder fills with more than the field names (%s): the scratch slots of repeated / optional / bit fields and the descriptor flags depend on what was done with a packet, so two packets with the same field values can compare unequal' % _walks_slots(repo, pk, p.ret()), eq.node.lineno, witness=True)
            else:
                ctx.undecided(rule, eq, label + ' -> %s' % canon(p.ret())[:120], 'the rule cannot read this result as "every field compares equal"', eq.node.lineno)
        elif p.end[0] in ('fall',):
            if not any('<in loop' in t for t in p.guard_texts()):
                ctx.violation(rule, eq, label + ' -> %s' % p.describe()['end'], '__eq__ does not return True/False on this path', eq.node.lineno)


def _walks_slots(repo, pk, v, depth=0):
    """non-empty text when the expression (or a one-expression method of Packet it calls) iterates
    __slots__ and the builder puts more than the field names there"""
    hit = False
    for n in ast.walk(v):
        if isinstance(n, ast.comprehension) and isinstance(n.iter, ast.Attribute) and n.iter.attr == '__slots__':
            hit = True
        if isinstance(n, ast.Call) and isinstance(n.func, ast.Attribute) and not n.args and depth < 2:
            m = pk.methods.get(n.func.attr)
            if m is not None:
                body = [x for x in m.node.body if not (isinstance(x, ast.Expr) and isinstance(x.value, ast.Constant))]
                if len(body) == 1 and isinstance(body[0], ast.Return) and body[0].value is not None and _walks_slots(repo, pk, body[0].value, depth + 1):
                    hit = True
    if not hit:
        return ''
    pb = repo.classes.get('PacketClassBuilder')
    if pb is None:
        return ''
    grows = []
    for fi in pb.methods.values():
        for n in ast.walk(fi.node):
            if isinstance(n, ast.AugAssign) and canon(n.target) == 'self.slots':
                grows.append(stmt_text(n)[:70])
            if isinstance(n, ast.Assign) and any(canon(t) == 'self.slots' for t in n.targets) and any(isinstance(x, ast.Call) and call_name(x) == 'sum' for x in ast.walk(n.value)):
                grows.append(stmt_text(n)[:70])
    return '; '.join(grows[:2])


def names_source(repo, it, slf):
    """where a per-class attribute that the comparison walks comes from: the class builder stores
    it (class attribute, possibly name-mangled, or an entry of __bisturi__).  ('all', text) when
    it is the name of every entry of the builder's field list, in order; ('filtered', text) when
    entries are left out; (None, ...) otherwise"""
    pb = repo.classes.get('PacketClassBuilder')
    if pb is None:
        return None, ''
    key = attr = None
    if isinstance(it, ast.Subscript) and canon(it.value) in ('%s.__bisturi__' % slf, '%s.__class__.__bisturi__' % slf) and isinstance(it.slice, ast.Constant):
        key = it.slice.value
    elif isinstance(it, ast.Attribute) and canon(it.value) in (slf, '%s.__class__' % slf):
        attr = it.attr
    else:
        return None, ''
    found = []
    for fi in pb.methods.values():
        for n in ast.walk(fi.node):
            v = None
            if key is not None and isinstance(n, ast.Assign) and len(n.targets) == 1 and isinstance(n.targets[0], ast.Subscript) \
                    and canon(n.targets[0].value) == 'self.bisturi_conf' and isinstance(n.targets[0].slice, ast.Constant) and n.targets[0].slice.value == key:
                v = n.value
            if attr is not None and isinstance(n, ast.Call) and isinstance(n.func, ast.Name) and n.func.id == 'setattr' and len(n.args) == 3 \
                    and canon(n.args[0]) == 'self.cls' and isinstance(n.args[1], ast.Constant) \
                    and n.args[1].value in (attr, '_Packet' + attr if attr.startswith('__') and not attr.endswith('__') else attr):
                v = n.args[2]
            if attr is not None and isinstance(n, ast.Assign) and len(n.targets) == 1 and isinstance(n.targets[0], ast.Subscript) \
                    and canon(n.targets[0].value) == 'self.attrs' and isinstance(n.targets[0].slice, ast.Constant) \
                    and n.targets[0].slice.value in (attr, '_Packet' + attr):
                v = n.value
            if v is not None:
                found.append((fi, v))
    if len(found) != 1:
        return None, ''
    fi, v = found[0]
    if isinstance(v, ast.Name):
        defs = [a.value for a in ast.walk(fi.node) if isinstance(a, ast.Assign) and len(a.targets) == 1 and isinstance(a.targets[0], ast.Name) and a.targets[0].id == v.id]
        if len(defs) != 1:
            return None, ''
        v = defs[0]
    if isinstance(v, ast.Call) and isinstance(v.func, ast.Name) and v.func.id in ('tuple', 'list') and len(v.args) == 1 and not v.keywords:
        v = v.args[0]
    if not isinstance(v, (ast.ListComp, ast.GeneratorExp)) or len(v.generators) != 1:
        return None, ''
    g = v.generators[0]
    if canon(g.iter) != 'self.fields':
        return None, ''
    text = unparse(v)[:100]
    if g.ifs:
        return 'filtered', 'it is built as %s' % text
    first = None
    if isinstance(g.target, ast.Tuple) and g.target.elts and isinstance(g.target.elts[0], ast.Name):
        first = g.target.elts[0].id
        ok = isinstance(v.elt, ast.Name) and v.elt.id == first
    elif isinstance(g.target, ast.Name):
        ok = isinstance(v.elt, ast.Subscript) and isinstance(v.elt.value, ast.Name) and v.elt.value.id == g.target.id \
            and isinstance(v.elt.slice, ast.Constant) and v.elt.slice.value == 0
    else:
        ok = False
    return ('all' if ok else None), text


def known_of(p):
    """canonical text of every test the path decided -> its truth value"""
    out = {}
    for g, pol in p.guards:
        while isinstance(g, ast.UnaryOp) and isinstance(g.op, ast.Not):
            g, pol = g.operand, not pol
        out[canon(g)] = pol
    return out


GETF = lambda slf: ('%s.get_fields()' % slf, '%s.__class__.get_fields()' % slf, 'type(%s).get_fields()' % slf)


def _name_var_of(target):
    """the variable bound to the field name by a loop / comprehension target over get_fields()"""
    if isinstance(target, ast.Name):
        return None                      # the whole tuple: not a name
    if isinstance(target, (ast.Tuple, ast.List)) and target.elts and isinstance(target.elts[0], ast.Name):
        return target.elts[0].id
    return None


def _cmp_reads(t, slf, oth, name_id, op):
    if isinstance(t, ast.UnaryOp) and isinstance(t.op, ast.Not):
        t = negate(t.operand)
    if not (isinstance(t, ast.Compare) and len(t.ops) == 1 and isinstance(t.ops[0], op)):
        return False

    def rd(e):
        if isinstance(e, ast.Call) and isinstance(e.func, ast.Name) and e.func.id == 'getattr' and len(e.args) >= 2 \
                and isinstance(e.args[0], ast.Name) and isinstance(e.args[1], ast.Name) and e.args[1].id == name_id:
            return e.args[0].id, (canon(e.args[2]) if len(e.args) > 2 else None)
        return None
    ra, rb = rd(t.left), rd(t.comparators[0])
    return ra is not None and rb is not None and {ra[0], rb[0]} == {slf, oth} and ra[1] == rb[1]


def result_kind(v, known, slf, oth, path=None):
    """what a returned expression says: 'T' / 'F' / 'INST' (the class test) / 'ALL' (every field of
    get_fields() compares equal) / 'INST&ALL' / None (not understood)"""
    if v is None:
        return None
    if isinstance(v, ast.Constant) and isinstance(v.value, bool):
        return 'T' if v.value else 'F'
    t = canon(v)
    if t in known:
        return 'T' if known[t] else 'F'
    nt = canon(negate(v))
    if nt in known:
        return 'F' if known[nt] else 'T'
    if t in ('isinstance(%s, %s.__class__)' % (oth, slf), 'isinstance(%s, type(%s))' % (oth, slf)):
        return 'INST'
    inner, neg = v, False
    if isinstance(v, ast.UnaryOp) and isinstance(v.op, ast.Not):
        inner, neg = v.operand, True
    if isinstance(inner, ast.Call) and isinstance(inner.func, ast.Name) and inner.func.id in ('any', 'all') and len(inner.args) == 1 \
            and isinstance(inner.args[0], (ast.GeneratorExp, ast.ListComp)) and len(inner.args[0].generators) == 1:
        g = inner.args[0].generators[0]
        nv = _name_var_of(g.target)
        if nv is not None and not g.ifs and canon(g.iter) in GETF(slf):
            if inner.func.id == 'any' and neg and _cmp_reads(inner.args[0].elt, slf, oth, nv, ast.NotEq):
                return 'ALL'
            if inner.func.id == 'all' and not neg and _cmp_reads(inner.args[0].elt, slf, oth, nv, ast.Eq):
                return 'ALL'
        return None
    if isinstance(v, ast.BoolOp) and isinstance(v.op, ast.And):
        ks = [result_kind(x, known, slf, oth, path) for x in v.values]
        if 'F' in ks:
            return 'F'
        if None in ks:
            return None
        ks = [k for k in ks if k != 'T']
        if not ks:
            return 'T'
        if ks == ['ALL']:
            return 'ALL'
        if ks == ['INST']:
            return 'INST'
        if ks == ['INST', 'ALL']:
            return 'INST&ALL'
        return None
    if isinstance(v, ast.Name) and '@phi' in v.id and v.id.endswith('out') and path is not None:
        var, k = v.id.split('@phi')
        k = int(k[:-3])
        lp = next((e for e in path.effects if e.kind == 'loop' and e.sub['phi'] == k), None)
        if lp is None or lp.sub['kind'] != 'for' or canon(lp.sub['iter']) not in GETF(slf):
            return None
        nv = _name_var_of(lp.sub['target'])
        if nv is None or result_kind(lp.sub['entry'].get(var), known, slf, oth) != 'T':
            return None
        item0 = '<item of %d>[0]' % k
        saw_false = False
        for bp in lp.sub['body']:
            val = bp.env.get(var)
            unchanged = val is not None and canon(val) == '%s@phi%d' % (var, k)
            if bp.end[0] in ('return', 'raise', 'continue'):
                return None
            if unchanged and bp.end[0] == 'fall':
                continue
            if isinstance(val, ast.Constant) and val.value is False and bp.guards:
                g, pol = bp.guards[-1]
                t_ = g if pol else negate(g)
                if _cmp_reads(_unsubst(t_, item0, nv), slf, oth, nv, ast.NotEq):
                    saw_false = True
                    continue
            return None
        return 'ALL' if saw_false else None
    return None


def _unsubst(e, item_text, name):
    """put the loop's name variable back where the walker wrote the item projection"""
    import copy

    class T(ast.NodeTransformer):
        def visit_Subscript(self, n):
            if canon(n) == item_text:
                return ast.Name(id=name, ctx=ast.Load())
            return self.generic_visit(n)
    return T().visit(copy.deepcopy(e))


def is_diff_test(t, slf, oth, name_e):
    """t is  read(self, N) != read(other, N)  (or not ==) for the loop's name element"""
    if isinstance(t, ast.UnaryOp) and isinstance(t.op, ast.Not):
        t = negate(t.operand)
    if not (isinstance(t, ast.Compare) and len(t.ops) == 1 and isinstance(t.ops[0], ast.NotEq)):
        return False
    a, b = t.left, t.comparators[0]

    def rd(e):
        if isinstance(e, ast.Call) and isinstance(e.func, ast.Name) and e.func.id == 'getattr' and len(e.args) >= 2 \
                and isinstance(e.args[0], ast.Name) and canon(e.args[1]) == name_e:
            return e.args[0].id, (canon(e.args[2]) if len(e.args) > 2 else None)
        return None

    ra, rb = rd(a), rd(b)
    if ra is None or rb is None:
        return False
    return {ra[0], rb[0]} == {slf, oth} and ra[1] == rb[1]


def check_total_reads(ctx, pk, readers):
    rule = 'R11-total-reads'
    repo = ctx.repo
    table = strategy_table(repo)
    any_undefaulted = False
    for fi in readers:
        # every variable a loop or a comprehension of the reader binds may hold a field name
        binders = [n for n in ast.walk(fi.node) if isinstance(n, (ast.For, ast.comprehension))]
        if not binders:
            continue
        names = {x.id for b in binders for x in ast.walk(b.target) if isinstance(x, ast.Name)}
        # plain aliases of those variables made inside the reader (name = entry_name)
        for _ in range(2):
            for a_ in ast.walk(fi.node):
                if isinstance(a_, ast.Assign) and len(a_.targets) == 1 and isinstance(a_.targets[0], ast.Name) and isinstance(a_.value, ast.Name) and a_.value.id in names:
                    names.add(a_.targets[0].id)
        names = sorted(names)
        for lp in [fi.node]:
            sites = read_sites(lp, names)
            ctx.unit('read_sites', len(sites))
            for call, obj, nm, defaulted in sites:
                st = '%s: %s' % (fi.qual, stmt_text(call))
                if defaulted:
                    ctx.holds(rule, fi, st, 'read with a default: cannot raise AttributeError', call.lineno)
                else:
                    any_undefaulted = True
                    check_all_assign(ctx, rule, fi, st, call, table)
    return any_undefaulted


PARTIAL_API = ('pack', 'pack_impl', 'unpack', 'unpack_impl', 'as_regular_expression', 'assert_consistency', 'tobytes', 'iterative_unpack')


def check_formatting_total(ctx, pk):
    """Round 5.  repr of a packet formats its values (f-string / % / str): a nested packet is
    formatted with its own __str__ / __format__ when Packet defines one, otherwise with its repr.
    Such a method must be as total as repr: pack() and friends raise PacketError for packets that
    repr has to show (overlapping positions, values that do not fit, half-parsed packets)"""
    rule = 'R11-total-reads'
    rp = pk.methods.get('__repr__')
    uses_str = rp is not None and (any(isinstance(n, ast.FormattedValue) and n.conversion != 114 and any(isinstance(x, ast.Call) and call_name(x) == 'getattr' for x in ast.walk(n.value)) for n in ast.walk(rp.node))
                                   or any(isinstance(n, ast.Constant) and isinstance(n.value, str) and '%s' in n.value for n in ast.walk(rp.node))
                                   or any(isinstance(n, ast.Call) and call_name(n) in ('str', 'format') for n in ast.walk(rp.node)))
    for name in ('__str__', '__format__'):
        m = pk.methods.get(name)
        if m is not None and not uses_str:
            ctx.undecided(rule, m, 'Packet.%s' % name, 'cannot see how __repr__ formats the values (str or repr)', m.node.lineno)
            continue
        if m is None:
            ctx.holds(rule, (pk.file, 'Packet'), 'Packet.%s not defined' % name, 'a nested packet is formatted with its repr', pk.node.lineno)
            continue
        calls = [n for n in ast.walk(m.node) if isinstance(n, ast.Call) and isinstance(n.func, ast.Attribute) and n.func.attr in PARTIAL_API]
        raises = [n for n in ast.walk(m.node) if isinstance(n, ast.Raise)]
        st = 'Packet.%s: %s' % (name, stmt_text(calls[0])[:80] if calls else stmt_text(m.node)[:80])
        if calls or raises:
            ctx.violation(rule, m, st, 'repr of an outer packet formats a nested packet through this method, which %s: repr raises for packets it must be able to show' % ('calls %s (partial: raises PacketError)' % calls[0].func.attr if calls else 'contains a raise'), m.node.lineno, witness=True)
        else:
            body_calls = {call_name(n) for n in ast.walk(m.node) if isinstance(n, ast.Call)}
            if body_calls <= {'repr', 'self.__repr__', 'str', 'format', 'len', 'type', 'getattr', 'hasattr', 'id', 'hex', None} :
                ctx.holds(rule, m, st, 'built from repr / attribute reads with defaults', m.node.lineno)
            else:
                ctx.undecided(rule, m, st, 'cannot see that every call of this method is total', m.node.lineno)


def check_all_assign(ctx, rule, reader, st, call, table):
    repo = ctx.repo
    for cname, (ci, strats) in sorted(table.items()):
        init = repo.method(ci, 'init')
        todo = []
        if init is not None:
            todo.append(('init', init, ci))
        seen = set()
        for s in strats:
            u = s['unpack']
            if u is not None and u.id not in seen and not is_placeholder(u):
                seen.add(u.id)
                todo.append(('unpack', u, ci))
        for kind, fi, c in todo:
            res = stores_own_name(repo, c, fi, depth=ctx.depth, max_paths=ctx.max_paths)
            ctx.unit('definite_assignment_paths', len(res))
            missing = [p for p, how in res if how is None]
            construct = '%s [field class %s: %s %s]' % (st, cname, kind, fi.qual)
            if missing:
                ctx.violation(rule, reader, construct,
                              '%s.%s has a path that never assigns the field\'s own name on the packet [%s]: the undefaulted read raises AttributeError for packets that contain such a field' % (
                                  cname, fi.node.name, '; '.join(missing[0].guard_texts()) or 'unconditional'), call.lineno)
            else:
                ctx.holds(rule, reader, construct, 'every path assigns the name', call.lineno)


def check(ctx):
    repo = ctx.repo
    pk = repo.cls('Packet')
    eq = repo.method(pk, '__eq__')
    rp = repo.method(pk, '__repr__')
    if eq is None:
        ctx.violation('R11-eq-shape', (pk.file, 'Packet'), 'Packet.__eq__', 'Packet defines no __eq__: equality is identity, not structural', pk.node.lineno)
        return
    ctx.unit('functions', 2)
    check_eq_shape(ctx, pk, eq)
    # (b)
    for name in ('__ne__', '__hash__'):
        m = pk.methods.get(name)
        if m is None:
            ctx.holds('R11-no-contradicting-override', (pk.file, 'Packet'), 'Packet.%s not overridden' % name, 'Python derives it from __eq__', pk.node.lineno)
        elif name == '__ne__':
            src = unparse(m.node)
            if 'not' in src and ('==' in src or '__eq__' in src):
                ctx.holds('R11-no-contradicting-override', m, stmt_text(m.node)[:120], '__ne__ is the negation of __eq__', m.node.lineno)
            else:
                ctx.violation('R11-no-contradicting-override', m, stmt_text(m.node)[:120], '__ne__ is overridden and is not the negation of __eq__', m.node.lineno)
    readers = [eq] + ([rp] if rp is not None else [])
    if rp is None:
        ctx.holds('R11-total-reads', (pk.file, 'Packet'), 'Packet.__repr__ not overridden', 'object.__repr__ never raises', pk.node.lineno)
    else:
        if any(isinstance(n, ast.Raise) for n in ast.walk(rp.node)):
            ctx.violation('R11-total-reads', rp, 'Packet.__repr__', 'contains a raise statement', rp.node.lineno)
    check_total_reads(ctx, pk, readers)
    check_formatting_total(ctx, pk)
    check_init_unpack_agree(ctx)
    # Round 6: a parsed packet and a constructed one hold the same attributes for the same values:
    # Packet.unpack creates the packet and hands it to the drivers, it stores nothing on it itself
    # (C12 Packet.unpack language) -- a pre-set slot that the constructor leaves unset makes the
    # two compare unequal as soon as __eq__ tells "missing" from None
    from .c12 import check_packet_unpack
    check_packet_unpack(ctx, 'R11-parsed-equals-built')
    # '%s' % value takes a tuple value as the argument list: repr raises TypeError for it
    rp_ = repo.method(pk, '__repr__')
    for m_ in [x for x in (rp_, pk.methods.get('__str__')) if x is not None]:
        for n_ in ast.walk(m_.node):
            if isinstance(n_, ast.BinOp) and isinstance(n_.op, ast.Mod) and not isinstance(n_.right, (ast.Tuple, ast.Dict)) \
                    and any(isinstance(x, ast.Call) and call_name(x) == 'getattr' for x in ast.walk(n_.right)) \
                    and any(isinstance(x, ast.Constant) and isinstance(x.value, str) and '%' in x.value for x in ast.walk(n_.left)):
                ctx.violation('R11-total-reads', m_, stmt_text(n_)[:100], 'a field value is the bare right operand of a %-format: a tuple value (a repeated field given as a tuple) is taken as the list of arguments and formatting raises TypeError', n_.lineno, witness=True)
    # "change one field of one of two equal packets, at any depth, and they differ": the two packets
    # share no mutable value -- what init stores is the keyword or a deep copy of the declared
    # default (C19 init rule), and nothing a field hands out is shared (C13 freshness)
    from .c19 import check_inits
    from .c13 import check_freshness
    check_inits(ctx)
    check_freshness(ctx)
    # __repr__ shows every field of get_fields()
    if rp is not None:
        lps = reachable_loops(rp)
        if lps and not any(canon(lp.iter) in ('self.get_fields()', 'self.__class__.get_fields()', 'type(self).get_fields()') for lp in lps):
            ctx.note('__repr__ iterates %s instead of get_fields()' % canon(lps[0].iter))
    ctx.floor('attribute read sites in __eq__/__repr__', ctx.units.get('read_sites', 0), 3)
    ctx.trust(*ASSUMPTIONS)
