"""Mod/ref effects, phases and the freshness lattice (DESIGN 2.5, A.6) -- rule
families R5 (run-time statelessness) and R6 (freshness)."""
import ast

from . import Undecided
from .expr import canon, unparse, call_name, attr_chain

# --- phases -----------------------------------------------------------------
# Functions that run only while a class is being declared / created.  Everything
# else in the run-time modules is treated as run-time code (a helper added later
# is therefore checked by default).  One reason per line.
COMPILE_PHASE_NAMES = {
    '__init__': 'constructs a new object: writes to self are writes to a fresh object',
    '__new__': 'constructs a new object',
    '_compile': 'class-creation phase: MetaPacket -> builder -> field._compile',
    '_compile_impl': 'class-creation phase',
    '_describe_yourself': 'class-creation phase',
    'repeated': 'declaration-time modifier: builds a Sequence',
    'when': 'declaration-time modifier: builds an Optional',
    'at': 'declaration-time modifier: records the move on the field being declared',
    'shift': 'declaration-time modifier',
    'aligned': 'declaration-time modifier',
    'describe': 'declaration-time modifier',
}
COMPILE_PHASE_MODULES = {
    'packet_builder': 'runs inside MetaPacket.__new__',
    'codegen': 'runs inside MetaPacket.__new__ (the generated drivers are analysed as templates)',
    '__init__': 'package metadata',
}
COMPILE_PHASE_FUNCS = {
    'deferred::compile_expr', 'deferred::compile_expr_into_callable', 'deferred::_defer_method',
    'deferred::_defer_method.nary', 'deferred::_defer_method.nary._encode_to_ascii_or_fail',
    'deferred::_defer_operations_of', 'deferred::defer_operations', 'deferred::defer_operations.decorator',
    'deferred::Operations.append', 'deferred::Operations.as_list',
    'structural_fields::normalize_raw_condition_into_a_callable',
    'structural_fields::convert_a_field_raw_condition_into_a_boolean_unary_expression',
    'structural_fields::normalize_count_condition_into_a_callable',
    'field::exec_once', 'field::exec_once.wrapper',
    'packet::_with_metaclass', 'packet::_with_metaclass.metaclass.__new__',
    'util::_string_as_seekable_file',
}

# classes whose ``self`` is an object shared by every packet instance of a class
SHARED_SELF_BASES = ('Field', 'Auto', 'Prototype')
# classes whose ``self`` is the object being processed / built
OWN_SELF = ('Packet', 'Fragments', 'FragmentsOfRegexps', 'FragmentRegEx', 'PacketError', 'Any',
            'Operations', 'SeekableFile', 'ByteBoundaryError')

PACKET_PARAMS = ('pkt', 'packet', 'instance')
PERCALL_PARAMS = ('k', 'kargs', 'kwargs', 'defaults', 'vargs', 'args_')
MUTATORS = {'append', 'extend', 'insert', 'pop', 'remove', 'clear', 'update', 'setdefault', 'sort',
            'reverse', 'add', 'discard', 'popitem', '__setitem__', '__delitem__', 'appendleft'}
FRESH_CALLS = {'copy.deepcopy', 'deepcopy', 'pickle.loads', 'list', 'dict', 'set', 'tuple',
               'bytearray', 'sorted', 'reversed', 'zip', 'map', 'filter', 'range', 'enumerate',
               'Fragments', 'FragmentsOfRegexps', 'Prototype', 'Any', 'PacketError', 'Operations',
               'functools.partial', 'partial', 'ifilter', 're.compile', 'compile'}
IMMUTABLE_CALLS = {'len', 'int', 'bool', 'bytes', 'str', 'repr', 'bin', 'ord', 'chr', 'isinstance',
                   'hasattr', 'callable', 'type', 'abs', 'min', 'max', 'sum', 'int.from_bytes', 're.escape',
                   'escape', 'any', 'all', 'hex', 'float', 'id', 'struct.calcsize'}
IMMUTABLE_METHODS = {'find', 'rfind', 'index', 'rindex', 'start', 'end', 'group', 'encode', 'decode',
                     'join', 'to_bytes', 'from_bytes', 'pack', 'hexdigest', 'format', 'replace',
                     'lower', 'upper', 'strip', 'rstrip', 'lstrip', 'tobytes', 'assemble_regexp',
                     'translate', 'startswith', 'endswith', 'search', 'match'}


def phase_of(repo, fi):
    """'compile' or 'run' with the reason"""
    if fi.module in COMPILE_PHASE_MODULES:
        return 'compile', COMPILE_PHASE_MODULES[fi.module]
    key = '%s::%s' % (fi.module, fi.qual)
    if key in COMPILE_PHASE_FUNCS:
        return 'compile', 'class-creation / declaration helper (frozen table)'
    # nested functions inherit the phase of their outermost enclosing function,
    # except that closures returned to run-time are handled by their own rules
    last = fi.qual.split('.')[-1]
    if last in COMPILE_PHASE_NAMES and fi.cls is not None and fi.qual == fi.cls.qual + '.' + last:
        return 'compile', COMPILE_PHASE_NAMES[last]
    if fi.cls is not None and fi.qual == fi.cls.qual + '.' + last and called_only_from_constructors(repo, fi.cls, last):
        return 'compile', 'helper called only from __init__ / the declaration-phase methods (constructs or compiles the object)'
    if fi.cls is not None and fi.qual == fi.cls.qual + '.' + last and only_in_declaration_table(repo, fi.cls, last):
        return 'compile', 'step kept in a class-level table that only __init__ / the declaration-phase methods read'
    return 'run', 'run-time module function not listed as declaration / class-creation code'


_CO = {}


def called_only_from_constructors(repo, ci, name):
    idx = repo.__dict__.get('_called_index')
    if idx is None:
        idx = {}
        for other in repo.functions.values():
            caller = other.qual.split('.')[-1]
            for n in ast.walk(other.node):
                if isinstance(n, ast.Attribute):
                    d = idx.setdefault(n.attr, {'refs': 0, 'calls': 0, 'callers': set()})
                    d['refs'] += 1
                if isinstance(n, ast.Call) and isinstance(n.func, ast.Attribute):
                    d = idx.setdefault(n.func.attr, {'refs': 0, 'calls': 0, 'callers': set()})
                    d['calls'] += 1
                    d['callers'].add(caller)
        repo.__dict__['_called_index'] = idx
    d = idx.get(name)
    if not d:
        return False
    # a method *value* (self.x = self._name) is a reference that is not a call: stays run-time
    # ... likewise a helper that only the declaration-phase methods (_compile & co) call
    return d['calls'] > 0 and d['refs'] == d['calls'] and all(c in ('__init__', '__new__') or c in COMPILE_PHASE_NAMES for c in d['callers'])


def only_in_declaration_table(repo, ci, name):
    """the method ``name`` of ``ci`` is never named as an attribute or a string anywhere; its only
    mentions are bare names inside class-level tuple / list / dict displays of ``ci``, and those
    tables are read (``.T``) only inside __init__ / declaration-phase methods: whatever calls the
    step does so while the object is being constructed or compiled"""
    tables = set()
    for st in ci.node.body:
        if isinstance(st, ast.Assign) and len(st.targets) == 1 and isinstance(st.targets[0], ast.Name) and isinstance(st.value, (ast.Tuple, ast.List, ast.Dict)):
            if any(isinstance(x, ast.Name) and x.id == name for x in ast.walk(st.value)):
                tables.add(st.targets[0].id)
    if not tables:
        return False
    for info in repo.modules.values():
        for n in ast.walk(info['tree']):
            if isinstance(n, ast.Attribute) and n.attr == name:
                return False
            if isinstance(n, ast.Constant) and n.value == name:
                return False
    # bare mentions: only inside those displays
    inside = set()
    for st in ci.node.body:
        if isinstance(st, ast.Assign) and len(st.targets) == 1 and isinstance(st.targets[0], ast.Name) and st.targets[0].id in tables:
            inside |= {id(x) for x in ast.walk(st.value)}
    mod = repo.modules[ci.module]['tree']
    for n in ast.walk(mod):
        if isinstance(n, ast.Name) and n.id == name and id(n) not in inside:
            return False
    for other in repo.functions.values():
        caller = other.qual.split('.')[-1]
        for n in ast.walk(other.node):
            if isinstance(n, ast.Attribute) and n.attr in tables and not (caller in ('__init__', '__new__') or caller in COMPILE_PHASE_NAMES):
                return False
            if isinstance(n, ast.Name) and n.id in tables and other.cls is not ci:
                return False
    return True


def self_role(repo, fi):
    if fi.cls is None:
        return None
    if not fi.node.args.args or fi.node.args.args[0].arg != 'self':
        return None
    for b in SHARED_SELF_BASES:
        if repo.is_subclass(fi.cls, b):
            return 'shared'
    if any(repo.is_subclass(fi.cls, b) for b in OWN_SELF if repo.has_cls(b)) or fi.cls.name in OWN_SELF:
        return 'own'
    # a private base class extracted from a per-call class (class Fragments(_SparseBuffer)): its
    # methods run on the same per-call objects, when nothing else derives from it
    subs = [c for c in repo.subclasses(fi.cls.name) if c is not fi.cls]
    if subs and all(any(repo.is_subclass(c, b) for b in OWN_SELF if repo.has_cls(b)) or c.name in OWN_SELF for c in subs):
        return 'own'
    return 'shared'          # unknown class: be conservative


class Roots:
    """classification of the object an expression denotes"""

    def __init__(self, repo, fi, walker):
        self.repo, self.fi, self.w = repo, fi, walker
        a = fi.node.args
        self.params = [x.arg for x in a.posonlyargs + a.args + a.kwonlyargs]
        if a.vararg: self.params.append(a.vararg.arg)
        if a.kwarg: self.params.append(a.kwarg.arg)
        self.kwarg = a.kwarg.arg if a.kwarg else None
        self.vararg = a.vararg.arg if a.vararg else None
        self.role = self_role(repo, fi)
        self.module_names = self._module_names()

    def _module_names(self):
        tree = self.repo.modules[self.fi.module]['tree']
        names = set()
        for n in tree.body:
            if isinstance(n, (ast.FunctionDef, ast.ClassDef)):
                names.add(n.name)
            elif isinstance(n, ast.Assign):
                for t in n.targets:
                    for x in ast.walk(t):
                        if isinstance(x, ast.Name):
                            names.add(x.id)
            elif isinstance(n, (ast.Import, ast.ImportFrom)):
                for a in n.names:
                    names.add((a.asname or a.name).split('.')[0])
        return names

    def root(self, e):
        """-> (kind, detail) kind in: shared own packet fragments percall fresh immutable
        foreign global param exc unknown"""
        if isinstance(e, ast.Name):
            n = e.id
            if n == 'self':
                return (self.role or 'param'), 'self'
            if n.startswith('<item of '):
                num = int(n[len('<item of '):-1])
                it = self.w.items.get(num)
                if it is None:
                    return 'unknown', n
                return self.root_of_iterable(it)
            if '@exc' in n:
                return 'exc', n
            if '@phi' in n or '@havoc' in n:
                base = n.split('@')[0]
                return 'unknown', n
            if n.startswith('<def ') or n.startswith('<class '):
                return 'fresh', n
            if n in self.params:
                if n in PACKET_PARAMS:
                    return 'packet', n
                if n == 'fragments':
                    return 'fragments', n
                if n == 'raw':
                    return 'immutable', n
                if n == self.kwarg or n == self.vararg or n in PERCALL_PARAMS:
                    return 'percall', n
                if n in ('cls', 'owner'):
                    return 'global', n
                return 'param', n
            if n in self.module_names or n in self.repo.classes:
                return 'global', n
            # free variable of a nested function -> closure cell of the enclosing scope
            if '.' in self.fi.qual and self.fi.cls is None or (self.fi.cls is not None and self.fi.qual.count('.') > 1):
                # a cell of a run-time function that holds an object made by that very call (a
                # local accumulator shared with a local helper) lives as long as the call
                enc = self.repo.functions.get(self.fi.id.rsplit('.', 1)[0]) if hasattr(self.fi, 'id') else None
                if enc is None:
                    q = self.fi.qual.rsplit('.', 1)[0]
                    enc = next((f for f in self.repo.functions.values() if f.qual == q and f.file == self.fi.file), None)
                if enc is not None:
                    try:
                        ph = phase_of(self.repo, enc)[0]
                    except Exception:
                        ph = None
                    vals = [a.value for a in ast.walk(enc.node) if isinstance(a, ast.Assign) and any(isinstance(t, ast.Name) and t.id == n for t in a.targets)]
                    fresh = vals and all(isinstance(v, (ast.List, ast.Dict, ast.Set, ast.ListComp, ast.DictComp, ast.SetComp))
                                         or (isinstance(v, ast.Call) and isinstance(v.func, ast.Name) and v.func.id in ('list', 'dict', 'set', 'bytearray', 'deque') and not v.args) for v in vals)
                    if ph == 'run' and fresh and n not in [x.arg for x in enc.node.args.args]:
                        return 'fresh', 'local %s of the running %s' % (n, enc.qual)
                return 'closure', n
            return 'unknown', n
        if isinstance(e, ast.Constant):
            return 'immutable', 'constant'
        if isinstance(e, (ast.List, ast.Dict, ast.Set, ast.ListComp, ast.DictComp, ast.SetComp, ast.GeneratorExp, ast.Tuple, ast.JoinedStr, ast.Lambda)):
            return 'fresh', type(e).__name__
        if isinstance(e, (ast.BinOp, ast.UnaryOp, ast.Compare, ast.BoolOp)):
            if isinstance(e, ast.BoolOp):
                return self.join([self.root(v) for v in e.values])
            return 'immutable', 'arithmetic'
        if isinstance(e, ast.IfExp):
            return self.join([self.root(e.body), self.root(e.orelse)])
        if isinstance(e, (ast.Attribute, ast.Subscript)):
            k, d = self.root(e.value)
            if k == 'immutable':
                return k, d
            if k == 'fresh' and isinstance(e, ast.Attribute) and isinstance(e.value, ast.Call):
                # attribute of a call result, e.g. self.prototype(...).field_name
                return k, d
            return k, d
        if isinstance(e, ast.Call):
            nm = call_name(e)
            f = e.func
            if isinstance(f, ast.Name) and f.id == 'getattr' and e.args:
                k, d = self.root(e.args[0])
                if k == 'packet':
                    return 'packet', 'attribute of the packet'
                return k, d
            if nm in ('copy.copy', 'copy'):
                # a shallow copy shares every nested list / packet with its source
                k, d = self.root(e.args[0]) if e.args else ('unknown', '')
                if k in ('immutable', 'fresh'):
                    return k, d
                return ('shared' if k in ('shared', 'own', 'packet') else k), 'shallow copy of %s: nested objects stay shared' % d
            if nm in FRESH_CALLS or (isinstance(f, ast.Name) and f.id in self.repo.classes):
                return 'fresh', nm
            if nm in IMMUTABLE_CALLS:
                return 'immutable', nm
            if isinstance(f, ast.Attribute):
                if f.attr in ('clone', '_clone_from_pickle', '_clone_from_live_obj', 'deepcopy'):
                    return 'fresh', nm or f.attr
                if f.attr in IMMUTABLE_METHODS:
                    return 'immutable', f.attr
                if f.attr in ('get',) and e.args:
                    # dict.get(key, default): the dict's element or the default
                    k, d = self.root(f.value)
                    if len(e.args) > 1:
                        return self.join([(k, d), self.root(e.args[1])])
                    return k, d
                if f.attr in ('proto_class', '__class__'):
                    return 'fresh', 'instantiation'
                if isinstance(f.value, ast.Name) and f.value.id == 'self' and f.attr in ('proto_class',):
                    return 'fresh', 'instantiation'
                # calling a callable stored on a shared object: user code
                rk, rd = self.root(f.value)
                if isinstance(f.value, ast.Name) and f.value.id == 'self':
                    fi = self.repo.method(self.fi.cls, f.attr) if self.fi.cls else None
                    if fi is None:
                        return 'foreign', 'result of the user callable self.%s' % f.attr
                    return 'unknown', 'result of self.%s()' % f.attr
                if f.attr in ('unpack', 'unpack_impl', 'pack', 'pack_impl'):
                    return 'immutable', 'cursor / buffer returned by a field'
                return 'unknown', 'result of %s' % (nm or unparse(f))
            if isinstance(f, ast.Call) or isinstance(f, ast.Subscript):
                return 'unknown', 'result of a computed callee'
            if isinstance(f, ast.Name):
                if f.id in ('type',):
                    return 'global', 'type object'
                if f.id in self.params and (f.id == 'cls' or f.id.endswith('class')):
                    return 'fresh', 'instance of the class passed as %s' % f.id
                return 'unknown', 'result of %s()' % f.id
        return 'unknown', type(e).__name__

    def root_of_iterable(self, it):
        if isinstance(it, ast.Call):
            nm = call_name(it)
            if nm in ('reversed', 'sorted', 'enumerate', 'zip', 'list', 'iter'):
                ks = [self.root(a) for a in it.args]
                return self.join(ks) if ks else ('fresh', nm)
            if nm == 'range':
                return 'immutable', 'range'
            if isinstance(it.func, ast.Attribute) and it.func.attr in ('items', 'keys', 'values'):
                return self.root(it.func.value)
            if isinstance(it.func, ast.Attribute) and it.func.attr in ('get_fields', 'get_sync_before_pack_methods', 'get_sync_after_unpack_methods'):
                return 'shared', 'element of %s()' % it.func.attr
        return self.root(it)

    ORDER = ['global', 'shared', 'foreign', 'closure', 'param', 'unknown', 'packet', 'own', 'fragments', 'percall', 'exc', 'fresh', 'immutable']

    def join(self, ks):
        best = None
        for k in ks:
            if best is None or self.ORDER.index(k[0]) < self.ORDER.index(best[0]):
                best = k
        return best or ('unknown', '')


BAD_ROOTS = ('shared', 'global', 'foreign', 'closure')


def collect_writes(repo, fi, max_paths=4096):
    """every write effect of a function with the root of the written object.
    returns (list of dict(kind, eff, target, root, detail, text, line), walker)"""
    w = repo.walker(inline_depth=0, max_paths=max_paths)
    paths = w.paths(fi.node, cls=fi.cls)
    roots = Roots(repo, fi, w)
    out, seen = [], set()

    def add(eff, target, what):
        key = (id(eff.node), canon(target), what)
        if key in seen:
            return
        seen.add(key)
        k, d = roots.root(target)
        out.append(dict(kind=what, eff=eff, target=target, root=k, detail=d, text=eff.text(), line=eff.lineno))

    imported_modules = set()
    for n_ in repo.modules[fi.module]['tree'].body:
        if isinstance(n_, ast.Import):
            for a_ in n_.names:
                imported_modules.add((a_.asname or a_.name).split('.')[0])

    def scan(p):
        for e in p.effects:
            if e.kind == 'store_attr':
                add(e, e.obj, 'attribute store')
            elif e.kind == 'store_sub':
                add(e, e.obj, 'item store')
            elif e.kind == 'setattr':
                add(e, e.obj, 'setattr')
            elif e.kind == 'del':
                t = e.obj
                add(e, t.value if isinstance(t, (ast.Attribute, ast.Subscript)) else t, 'delete')
            elif e.kind == 'call':
                f = e.call.func
                if isinstance(f, ast.Attribute) and f.attr in MUTATORS:
                    if isinstance(f.value, ast.Name) and f.value.id in imported_modules:
                        pass            # operator.add(a, b), bisect.insort(...): a function of a module, not a method of an object
                    elif isinstance(f.value, ast.Name) and f.value.id in repo.classes and e.call.args:
                        # explicit base-class call  Base.method(self, ...)
                        add(e, e.call.args[0], 'mutating call %s.%s()' % (f.value.id, f.attr))
                    else:
                        add(e, f.value, 'mutating call .%s()' % f.attr)
                elif isinstance(f, ast.Name) and f.id == 'delattr' and e.call.args:
                    add(e, e.call.args[0], 'delattr')
            elif e.kind == 'loop':
                for bp in e.sub['body']:
                    scan(bp)
            elif e.kind == 'try_partial':
                for bp in e.sub['body']:
                    scan(bp)

    for p in paths:
        scan(p)
    # global / nonlocal declarations followed by assignment
    for n in ast.walk(fi.node):
        if isinstance(n, (ast.Global, ast.Nonlocal)):
            for name in n.names:
                for m in ast.walk(fi.node):
                    if isinstance(m, ast.Name) and m.id == name and isinstance(m.ctx, (ast.Store, ast.Del)):
                        key = (id(m), name, 'global')
                        if key not in seen:
                            seen.add(key)
                            out.append(dict(kind='%s rebinding' % type(n).__name__.lower(), eff=None, target=m, root='global', detail=name,
                                            text='%s %s' % (type(n).__name__.lower(), name), line=m.lineno))
    return out, w, paths, roots
