"""Thorough tier: declaration inventory.  Scans examples/, tests/, docs/, stuff/ and README.md of the
repository for the declaration constructs actually used (field kinds, modifiers, class options,
descriptors, pattern matching) and shows that each maps to something the checks analyse.  Source
text only: nothing is imported or executed."""
import ast
import os
import re

FIELD_CALL = re.compile(r'\b([A-Z][A-Za-z]+)\s*\(')
MODIFIER = re.compile(r'\.\s*(repeated|when|at|shift|aligned|describe|chooses|if_true_then_else)\s*\(')
OPTION = re.compile(r"__bisturi__\s*=\s*\{([^}]*)\}", re.S)
KEY = re.compile(r"['\"](\w+)['\"]\s*:")

ANALYSED_OPTIONS = {
    'endianness': 'C05 (endianness fold, configuration plumbing)',
    'align': 'C10 (class-wide align, per-element default)',
    'search_buffer_length': 'C06 (search window)',
    'generate_for_pack': 'C03 (option plumbing)', 'generate_for_unpack': 'C03 (option plumbing)',
    'vectorize': 'C03 (option plumbing)', 'annotate': 'C03 (annotate is comment-only)',
    'additional_slots': 'C17 (slot flow: user slots are appended)',
}
ANALYSED_MODIFIERS = {
    'repeated': 'C08 / C10', 'when': 'C08', 'at': 'C10', 'shift': 'C10', 'aligned': 'C10',
    'describe': 'C17', 'chooses': 'C09', 'if_true_then_else': 'C09',
}


def scan(root):
    files = []
    for sub in ('examples', 'tests', 'docs', 'stuff'):
        d = os.path.join(root, sub)
        for dp, dn, fn in os.walk(d):
            if '__pkts__' in dp or '__pycache__' in dp:
                continue
            for f in fn:
                if f.endswith(('.py', '.md')):
                    files.append(os.path.join(dp, f))
    for f in ('README.md',):
        if os.path.exists(os.path.join(root, f)):
            files.append(os.path.join(root, f))
    used = {'fields': {}, 'modifiers': {}, 'options': {}}
    for path in files:
        try:
            txt = open(path, errors='replace').read()
        except OSError:
            continue
        rel = os.path.relpath(path, root)
        for m in FIELD_CALL.finditer(txt):
            used['fields'].setdefault(m.group(1), set()).add(rel)
        for m in MODIFIER.finditer(txt):
            used['modifiers'].setdefault(m.group(1), set()).add(rel)
        for m in OPTION.finditer(txt):
            for k in KEY.finditer(m.group(1)):
                used['options'].setdefault(k.group(1), set()).add(rel)
    return files, used


def inventory(ctx):
    repo = ctx.repo
    files, used = scan(repo.root)
    field_classes = {c.name for c in repo.field_classes()} | {'Auto', 'AutoLength', 'Any', 'Packet'}
    out = {'files_scanned': len(files), 'field_kinds': {}, 'modifiers': {}, 'options': {}, 'not_analysed': []}
    for name, where in sorted(used['fields'].items()):
        if name in field_classes:
            out['field_kinds'][name] = len(where)
    for name, where in sorted(used['modifiers'].items()):
        out['modifiers'][name] = {'files': len(where), 'analysed_by': ANALYSED_MODIFIERS.get(name)}
        if name not in ANALYSED_MODIFIERS:
            out['not_analysed'].append('modifier .%s()' % name)
    for name, where in sorted(used['options'].items()):
        out['options'][name] = {'files': len(where), 'analysed_by': ANALYSED_OPTIONS.get(name)}
        if name not in ANALYSED_OPTIONS:
            out['not_analysed'].append('class option %r (%s)' % (name, sorted(where)[0]))
    ctx.units['inventory_files'] = len(files)
    ctx.notes.append('declaration inventory: %s' % out)
    where = ('<repository>', 'examples/ tests/ docs/ stuff/')
    for k in sorted(out['field_kinds']):
        ctx.holds('inventory', where, 'field kind %s used in %d files' % (k, out['field_kinds'][k]), 'has a strategy-table entry / rule', 0)
    for k, v in sorted(out['modifiers'].items()):
        if v['analysed_by']:
            ctx.holds('inventory', where, 'modifier .%s() used in %d files' % (k, v['files']), 'analysed by %s' % v['analysed_by'], 0)
    for k, v in sorted(out['options'].items()):
        if v['analysed_by']:
            ctx.holds('inventory', where, 'class option %r used in %d files' % (k, v['files']), 'analysed by %s' % v['analysed_by'], 0)
    for x in out['not_analysed']:
        ctx.note('declaration construct used in the repository but not analysed by any rule: %s' % x)
    return out
